#!/venv/bin/python
"""Systematic behaviour-preserving transformations of the whole package, applied as in-memory overlays, against
every check.  Any obligation that fails (or any analysis error) under one of them is a false alarm / robustness
defect of the machinery, never of the repository.

  reformat : every module re-emitted with ast.unparse (layout, comments, line numbers change)
  rename   : every local variable of every function renamed  x -> x_r  (parameters, attributes, globals untouched)
  both     : rename + reformat

usage: tools/benign_auto.py [reformat|rename|both] [Cxx ...]
"""
from __future__ import annotations

import ast
import glob
import os
import sys
from concurrent.futures import ProcessPoolExecutor

VERIF = os.path.dirname(os.path.dirname(os.path.abspath(__file__)))
sys.path.insert(0, VERIF)
os.chdir(VERIF)
REPO = os.environ.get("REPO", "/repo")


class Renamer(ast.NodeTransformer):
    """Rename the locals of one function (nested functions included unless they rebind the name)."""

    def __init__(self, mapping):
        self.mapping = mapping

    def visit_Name(self, node):
        if node.id in self.mapping:
            return ast.copy_location(ast.Name(id=self.mapping[node.id], ctx=node.ctx), node)
        return node


def own_locals(fn) -> set:
    """Names bound by assignment / for / with / comprehension inside fn (not in nested defs), minus parameters."""
    params = {a.arg for a in fn.args.args + fn.args.kwonlyargs + fn.args.posonlyargs}
    if fn.args.vararg:
        params.add(fn.args.vararg.arg)
    if fn.args.kwarg:
        params.add(fn.args.kwarg.arg)
    bound, banned = set(), set(params)

    def walk(n, top):
        for ch in ast.iter_child_nodes(n):
            if isinstance(ch, (ast.FunctionDef, ast.AsyncFunctionDef, ast.Lambda, ast.ClassDef)):
                # names rebound inside a nested scope must not be renamed at all (shadowing)
                if isinstance(ch, (ast.FunctionDef, ast.AsyncFunctionDef)):
                    banned.add(ch.name)
                    inner = ch.args
                elif isinstance(ch, ast.Lambda):
                    inner = ch.args
                else:
                    inner = None
                if inner is not None:
                    for a in inner.args + inner.kwonlyargs + inner.posonlyargs:
                        banned.add(a.arg)
                for x in ast.walk(ch):
                    if isinstance(x, ast.Name) and isinstance(x.ctx, ast.Store):
                        banned.add(x.id)
                    if isinstance(x, (ast.Global, ast.Nonlocal)):
                        banned.update(x.names)
                continue
            if isinstance(ch, (ast.Global, ast.Nonlocal)):
                banned.update(ch.names)
            if isinstance(ch, ast.Name) and isinstance(ch.ctx, (ast.Store, ast.Del)):
                bound.add(ch.id)
            if isinstance(ch, (ast.Import, ast.ImportFrom)):
                for al in ch.names:
                    banned.add((al.asname or al.name).split(".")[0])
            walk(ch, False)

    walk(fn, True)
    return {b for b in bound - banned if not b.startswith("__")}


def rename_module(src: str) -> str:
    tree = ast.parse(src)
    for node in ast.walk(tree):
        if isinstance(node, (ast.FunctionDef, ast.AsyncFunctionDef)):
            # only outermost functions / methods: nested ones are handled through their parent
            pass
    def top_functions(n):
        for ch in ast.iter_child_nodes(n):
            if isinstance(ch, (ast.FunctionDef, ast.AsyncFunctionDef)):
                yield ch
            elif isinstance(ch, ast.ClassDef):
                yield from top_functions(ch)
    for fn in top_functions(tree):
        loc = own_locals(fn)
        if loc:
            Renamer({x: x + "_r" for x in loc}).visit(fn)
    ast.fix_missing_locations(tree)
    return ast.unparse(tree) + "\n"


class CommuteConst(ast.NodeTransformer):
    """c * x -> x * c  and  c + x -> x + c  (and back) when one operand is a numeric literal: exact in floating point"""

    def visit_BinOp(self, node):
        self.generic_visit(node)
        if isinstance(node.op, (ast.Mult, ast.Add)):
            def num(n):
                return isinstance(n, ast.Constant) and isinstance(n.value, (int, float, complex)) and not isinstance(n.value, bool)
            if num(node.left) != num(node.right):
                node.left, node.right = node.right, node.left
        return node


class AugToAssign(ast.NodeTransformer):
    """x op= y  ->  x = x op y  for plain names and subscripts of jax dict entries (values are rebuilt, not mutated in place:
    restricted to targets that are dictionary entries keyed by a string or plain names not used as numpy buffers elsewhere
    is not decidable here, so only Name targets inside functions decorated with jit / partial(jit) are rewritten)"""

    def __init__(self):
        self.in_jit = 0

    def visit_FunctionDef(self, node):
        jitted = any("jit" in ast.unparse(d) for d in node.decorator_list)
        self.in_jit += jitted
        self.generic_visit(node)
        self.in_jit -= jitted
        return node

    def visit_AugAssign(self, node):
        self.generic_visit(node)
        if self.in_jit and isinstance(node.target, (ast.Name, ast.Subscript)):
            import copy
            load = copy.deepcopy(node.target)
            for n in ast.walk(load):
                if hasattr(n, "ctx"):
                    n.ctx = ast.Load()
            return ast.copy_location(ast.Assign(targets=[node.target], value=ast.BinOp(left=load, op=node.op, right=node.value)), node)
        return node


class ReturnTemp(ast.NodeTransformer):
    """return <expr>  ->  result__ = <expr>; return result__   and a no-op statement at the top of every function"""

    def visit_FunctionDef(self, node):
        self.generic_visit(node)
        new = []
        for st in node.body:
            new.append(st)
        body = []
        first = 1 if (node.body and isinstance(node.body[0], ast.Expr) and isinstance(getattr(node.body[0], "value", None), ast.Constant)
                      and isinstance(node.body[0].value.value, str)) else 0
        for i, st in enumerate(node.body):
            if i == first:
                body.append(ast.Pass())
            body.append(st)
        node.body = body
        return node

    def visit_Return(self, node):
        if node.value is None or isinstance(node.value, (ast.Name, ast.Constant)):
            return node
        tmp = ast.Name(id="result__", ctx=ast.Store())
        return [ast.copy_location(ast.Assign(targets=[tmp], value=node.value), node),
                ast.copy_location(ast.Return(value=ast.Name(id="result__", ctx=ast.Load())), node)]


class ThreeAddress(ast.NodeTransformer):
    """Name the compound operands of calls and arithmetic:  f(g(x) + 1)  ->  t1 = g(x); t2 = t1 + 1; f(t2).
    Evaluation order is kept (left to right, innermost first).  Nothing is extracted from lambdas, comprehensions,
    conditional expressions, boolean operators, f-strings, decorators, default values, or assignment targets."""

    def __init__(self):
        self.n = 0

    def _extract(self, expr, pre):
        """returns a replacement for expr, appending temp assignments to pre"""
        if isinstance(expr, (ast.Lambda, ast.ListComp, ast.SetComp, ast.DictComp, ast.GeneratorExp, ast.IfExp, ast.BoolOp,
                             ast.JoinedStr, ast.NamedExpr, ast.Await, ast.Yield, ast.YieldFrom, ast.Starred)):
            return expr
        if isinstance(expr, ast.BinOp):
            expr.left = self._operand(expr.left, pre)
            expr.right = self._operand(expr.right, pre)
        elif isinstance(expr, ast.UnaryOp):
            expr.operand = self._operand(expr.operand, pre)
        elif isinstance(expr, ast.Call):
            if isinstance(expr.func, ast.Attribute):
                expr.func.value = self._extract(expr.func.value, pre)
            expr.args = [a if isinstance(a, ast.Starred) else self._operand(a, pre) for a in expr.args]
            for k in expr.keywords:
                if k.arg is not None:
                    k.value = self._operand(k.value, pre)
        elif isinstance(expr, ast.Subscript):
            expr.value = self._extract(expr.value, pre)
        elif isinstance(expr, ast.Attribute):
            expr.value = self._extract(expr.value, pre)
        elif isinstance(expr, (ast.Tuple, ast.List)):
            expr.elts = [e if isinstance(e, ast.Starred) else self._extract(e, pre) for e in expr.elts]
        return expr

    def _operand(self, expr, pre):
        expr = self._extract(expr, pre)
        if isinstance(expr, (ast.BinOp, ast.Call)) :
            self.n += 1
            name = f"t__{self.n}"
            pre.append(ast.Assign(targets=[ast.Name(id=name, ctx=ast.Store())], value=expr))
            return ast.Name(id=name, ctx=ast.Load())
        return expr

    def _block(self, stmts):
        out = []
        for st in stmts:
            pre = []
            if isinstance(st, ast.Assign):
                st.value = self._extract(st.value, pre)
            elif isinstance(st, ast.AugAssign):
                st.value = self._extract(st.value, pre)
            elif isinstance(st, ast.Return) and st.value is not None:
                st.value = self._extract(st.value, pre)
            elif isinstance(st, ast.Expr):
                st.value = self._extract(st.value, pre)
            for fld in ("body", "orelse", "finalbody"):
                sub = getattr(st, fld, None)
                if isinstance(sub, list) and sub and isinstance(sub[0], ast.stmt) and not isinstance(st, ast.ClassDef):
                    setattr(st, fld, self._block(sub))
            for h in getattr(st, "handlers", []) or []:
                h.body = self._block(h.body)
            if isinstance(st, ast.ClassDef):
                st.body = self._block(st.body)
            for p_ in pre:
                ast.copy_location(p_, st)
            out.extend(pre)
            out.append(st)
        return out

    def visit_Module(self, node):
        node.body = self._block(node.body)
        return node


class SwapBranches(ast.NodeTransformer):
    """if c: A else: B  ->  if not c: B else: A   (statements and conditional expressions; elif chains are left alone)"""

    def visit_If(self, node):
        self.generic_visit(node)
        if node.orelse and not (len(node.orelse) == 1 and isinstance(node.orelse[0], ast.If)):
            node.test = ast.UnaryOp(op=ast.Not(), operand=node.test)
            node.body, node.orelse = node.orelse, node.body
        return node

    def visit_IfExp(self, node):
        self.generic_visit(node)
        node.test = ast.UnaryOp(op=ast.Not(), operand=node.test)
        node.body, node.orelse = node.orelse, node.body
        return node


class GuardClauses(ast.NodeTransformer):
    """if c: ...; return X  else: REST   ->   if c: ...; return X \n REST   (an else after a branch that always leaves)"""

    @staticmethod
    def _leaves(stmts) -> bool:
        return bool(stmts) and isinstance(stmts[-1], (ast.Return, ast.Raise, ast.Continue, ast.Break))

    def _block(self, stmts):
        out = []
        for st in stmts:
            st = self.visit(st)
            if isinstance(st, ast.If) and st.orelse and self._leaves(st.body):
                rest = st.orelse
                st.orelse = []
                out.append(st)
                out.extend(rest)
            else:
                out.append(st)
        return out

    def generic_visit(self, node):
        for fld in ("body", "orelse", "finalbody"):
            sub = getattr(node, fld, None)
            if isinstance(sub, list) and sub and isinstance(sub[0], ast.stmt):
                setattr(node, fld, self._block(sub))
        for h in getattr(node, "handlers", []) or []:
            h.body = self._block(h.body)
        return node


class CompToLoop(ast.NodeTransformer):
    """name = [elt for t in it if c]   ->   name = []; for t in it: (if c:) name.append(elt)
    only for single-generator list comprehensions assigned to a plain name, whose loop variables occur nowhere else
    in the enclosing function (a for loop leaks its variable, a comprehension does not)"""

    def _names(self, node, ctx=None):
        return [n.id for n in ast.walk(node) if isinstance(n, ast.Name) and (ctx is None or isinstance(n.ctx, ctx))]

    def visit_FunctionDef(self, fn):
        self.generic_visit(fn)
        all_names = self._names(fn)

        def rewrite(stmts):
            out = []
            for st in stmts:
                for fld in ("body", "orelse", "finalbody"):
                    sub = getattr(st, fld, None)
                    if isinstance(sub, list) and sub and isinstance(sub[0], ast.stmt) and not isinstance(
                            st, (ast.FunctionDef, ast.AsyncFunctionDef, ast.ClassDef)):
                        setattr(st, fld, rewrite(sub))
                for h in getattr(st, "handlers", []) or []:
                    h.body = rewrite(h.body)
                if isinstance(st, ast.Assign) and len(st.targets) == 1 and isinstance(st.targets[0], ast.Name) and \
                        isinstance(st.value, ast.ListComp) and len(st.value.generators) == 1 and \
                        not st.value.generators[0].is_async:
                    g = st.value.generators[0]
                    tvars = self._names(g.target)
                    inside = self._names(st.value)
                    tgt = st.targets[0].id
                    if all(all_names.count(v) == inside.count(v) for v in tvars) and tgt not in inside and not any(
                            isinstance(n, (ast.Lambda, ast.ListComp, ast.GeneratorExp, ast.SetComp, ast.DictComp))
                            for n in ast.walk(st.value.elt)):
                        app = ast.Expr(value=ast.Call(func=ast.Attribute(value=ast.Name(id=tgt, ctx=ast.Load()), attr="append",
                                                                         ctx=ast.Load()), args=[st.value.elt], keywords=[]))
                        body = [app]
                        for c in reversed(g.ifs):
                            body = [ast.If(test=c, body=body, orelse=[])]
                        loop = ast.For(target=g.target, iter=g.iter, body=body, orelse=[])
                        init = ast.Assign(targets=[ast.Name(id=tgt, ctx=ast.Store())], value=ast.List(elts=[], ctx=ast.Load()))
                        for n_ in (init, loop):
                            ast.copy_location(n_, st)
                        out.extend([init, loop])
                        continue
                out.append(st)
            return out

        fn.body = rewrite(fn.body)
        return fn


class Delegate(ast.NodeTransformer):
    """def m(self, a, b=1): BODY   ->   def m(self, a, b=1): return self._m__impl(a, b)  +  def _m__impl(self, a, b): BODY
    for plain methods and module-level functions (no *args / **kwargs / keyword-only parameters, no generators, no
    nested use of the function's own name, not abstract, not a dunder, not registered with singledispatch).  The
    decorators (jit with static_argnums ...) stay on the public function; the implementation is traced inline."""

    def _ok(self, fn, in_class):
        a = fn.args
        if a.vararg or a.kwarg or a.kwonlyargs or a.posonlyargs:
            return False
        if fn.name.startswith("__") or fn.name.endswith("__impl") or fn.name == "_":
            return False
        decs = [ast.unparse(d) for d in fn.decorator_list]
        if any(("abstractmethod" in d) or ("register" in d) or ("singledispatch" in d) or ("classmethod" in d) or
               ("staticmethod" in d) or ("property" in d) or ("defjvp" in d) or ("custom_jvp" in d) or ("contextmanager" in d)
               for d in decs):
            return False
        own = [n for n in ast.walk(fn) if n is not fn]
        if any(isinstance(n, (ast.Yield, ast.YieldFrom, ast.Global, ast.Nonlocal)) for n in own):
            return False
        if in_class and (not a.args or a.args[0].arg != "self"):
            return False
        body = fn.body
        if len(body) == 1 and isinstance(body[0], (ast.Pass, ast.Raise)):
            return False
        if len(body) <= 2 and any(isinstance(b, ast.Raise) for b in body):
            return False
        return True

    def _split(self, fn, in_class):
        import copy
        impl = copy.deepcopy(fn)
        impl.name = ("_" if not fn.name.startswith("_") else "") + fn.name + "__impl"
        impl.decorator_list = []
        impl.returns = None
        for a_ in impl.args.args:
            a_.annotation = None
        impl.args.defaults = []
        params = [a_.arg for a_ in fn.args.args]
        if in_class:
            callee = ast.Attribute(value=ast.Name(id="self", ctx=ast.Load()), attr=impl.name, ctx=ast.Load())
            args = [ast.Name(id=p_, ctx=ast.Load()) for p_ in params[1:]]
        else:
            callee = ast.Name(id=impl.name, ctx=ast.Load())
            args = [ast.Name(id=p_, ctx=ast.Load()) for p_ in params]
        doc = [fn.body[0]] if fn.body and isinstance(fn.body[0], ast.Expr) and isinstance(
            getattr(fn.body[0], "value", None), ast.Constant) and isinstance(fn.body[0].value.value, str) else []
        fn.body = doc + [ast.Return(value=ast.Call(func=callee, args=args, keywords=[]))]
        return [fn, impl]

    def _block(self, stmts, in_class):
        out = []
        for st in stmts:
            if isinstance(st, ast.ClassDef):
                st.body = self._block(st.body, True)
                out.append(st)
            elif isinstance(st, ast.FunctionDef) and self._ok(st, in_class):
                out.extend(self._split(st, in_class))
            else:
                out.append(st)
        return out

    def visit_Module(self, node):
        node.body = self._block(node.body, False)
        return node


_SIGS = None
_SRC = None        # rel path -> source the signature tables are computed from (None: the files of REPO)


def _package_sources():
    if _SRC is not None:
        return sorted(_SRC.items())
    out = []
    for pth in sorted(glob.glob(os.path.join(REPO, "ad_afqmc", "*.py"))):
        out.append((os.path.relpath(pth, REPO), open(pth).read()))
    return out


def _signatures():
    """name -> positional parameter names (without self / cls) for every function of the package whose name has one
    signature package-wide, takes no *args / **kwargs, is not dispatched on its first argument and has no static
    argument other than self (jax treats an argument passed by keyword as traced)"""
    global _SIGS
    if _SIGS is not None:
        return _SIGS
    table = {}
    banned = set()
    for path, src_ in _package_sources():
        if os.path.basename(path) == "config.py":
            for n in ast.walk(ast.parse(src_)):
                if isinstance(n, ast.FunctionDef):
                    banned.add(n.name)           # the MPI stand-in mirrors mpi4py's positional API
            continue
        for n in ast.walk(ast.parse(src_)):
            if not isinstance(n, ast.FunctionDef):
                continue
            a = n.args
            deco = " ".join(ast.unparse(d) for d in n.decorator_list)
            names = [x.arg for x in a.posonlyargs + a.args]
            if names and names[0] in ("self", "cls"):
                names = names[1:]
            bad = a.vararg or a.kwarg or a.posonlyargs or "dispatch" in deco or ".register" in deco or "defjvp" in deco \
                or n.name.startswith("__")
            if "static_argnums" in deco:
                import re
                m = re.search(r"static_argnums=\(?([0-9, ]*)\)?", deco)
                nums = {int(x) for x in m.group(1).replace(" ", "").split(",") if x} if m else {99}
                if nums - {0}:
                    bad = True
            if bad:
                banned.add(n.name)
                continue
            if n.name in table and table[n.name] != names:
                banned.add(n.name)
            table[n.name] = names
    _SIGS = {k: v for k, v in table.items() if k not in banned}
    return _SIGS


class KwCalls(ast.NodeTransformer):
    """f(a, b) -> f(x=a, y=b) for calls of package functions / methods, identified by name"""

    def visit_Call(self, node):
        self.generic_visit(node)
        nm = node.func.id if isinstance(node.func, ast.Name) else (
            node.func.attr if isinstance(node.func, ast.Attribute) else None)
        sig = _signatures().get(nm) if nm else None
        if sig is None or not node.args or any(isinstance(a, ast.Starred) for a in node.args) or \
                any(k.arg is None for k in node.keywords) or len(node.args) > len(sig):
            return node
        new_kw = [ast.keyword(arg=sig[i], value=a) for i, a in enumerate(node.args)]
        if {k.arg for k in new_kw} & {k.arg for k in node.keywords}:
            return node
        if isinstance(node.func, ast.Attribute) and isinstance(node.func.value, ast.Name) and \
                node.func.value.id in ("np", "jnp", "jax", "lax", "random", "scipy", "math", "comm", "MPI", "h5py"):
            return node
        return ast.copy_location(ast.Call(func=node.func, args=[], keywords=new_kw + node.keywords), node)


_ALLPARAMS = None


def _all_param_names():
    """name -> set of parameter names over every definition of that name in the package (methods and functions); dunder
    methods are left out (their keywords are part of the class / protocol interface)"""
    global _ALLPARAMS
    if _ALLPARAMS is None:
        tab = {}
        for path, src_ in _package_sources():
            for n in ast.walk(ast.parse(src_)):
                if isinstance(n, (ast.FunctionDef, ast.AsyncFunctionDef)) and not n.name.startswith("__"):
                    a = n.args
                    tab.setdefault(n.name, set()).update(x.arg for x in a.posonlyargs + a.args + a.kwonlyargs
                                                         if x.arg not in ("self", "cls"))
        _ALLPARAMS = tab
    return _ALLPARAMS


class ParamRename(ast.NodeTransformer):
    """every parameter of every function / method / lambda of the package gets the suffix `_q`, in its definition, in the
    body (closures included) and at every keyword call site of a package function: a consistent package-wide rename of
    the API's parameter names.  `self` / `cls`, dunder methods and the names jit is told about by `static_argnames`
    keep their names."""
    SUF = "_q"

    def __init__(self):
        self.stack = []

    def _params(self, a):
        return {x.arg for x in a.posonlyargs + a.args + a.kwonlyargs if x.arg not in ("self", "cls")} | \
            ({a.vararg.arg} if a.vararg else set()) | ({a.kwarg.arg} if a.kwarg else set())

    def _visit_fn(self, node, dunder=False):
        ps = set() if dunder else self._params(node.args)
        static = set()
        for d in getattr(node, "decorator_list", []):
            for kw in getattr(d, "keywords", []) if isinstance(d, ast.Call) else []:
                if kw.arg == "static_argnames":
                    static |= {c.value for c in ast.walk(kw.value) if isinstance(c, ast.Constant) and isinstance(c.value, str)}
        ps -= static
        # defaults and decorators are evaluated in the enclosing scope
        node.args.defaults = [self.visit(d) for d in node.args.defaults]
        node.args.kw_defaults = [self.visit(d) if d is not None else None for d in node.args.kw_defaults]
        if hasattr(node, "decorator_list"):
            node.decorator_list = [self.visit(d) for d in node.decorator_list]
        self.stack.append(ps)
        for x in node.args.posonlyargs + node.args.args + node.args.kwonlyargs + \
                ([node.args.vararg] if node.args.vararg else []) + ([node.args.kwarg] if node.args.kwarg else []):
            if x.arg in ps:
                x.arg = x.arg + self.SUF
        if isinstance(node, ast.Lambda):
            node.body = self.visit(node.body)
        else:
            node.body = [self.visit(st) for st in node.body]
        self.stack.pop()
        return node

    def visit_FunctionDef(self, node):
        return self._visit_fn(node, dunder=node.name.startswith("__"))

    def visit_Lambda(self, node):
        return self._visit_fn(node)

    def visit_Name(self, node):
        if any(node.id in ps for ps in self.stack):
            return ast.copy_location(ast.Name(id=node.id + self.SUF, ctx=node.ctx), node)
        return node

    def visit_Call(self, node):
        self.generic_visit(node)
        target = node.func
        if isinstance(target, (ast.Name, ast.Attribute)) and _ref_name(target) in ("partial",) and node.args:
            target = node.args[0]
        nm = _ref_name(target) if isinstance(target, (ast.Name, ast.Attribute)) else None
        ps = _all_param_names().get(nm) if nm else None
        if ps and not (isinstance(target, ast.Attribute) and isinstance(target.value, ast.Name) and target.value.id in (
                "np", "jnp", "jax", "lax", "random", "scipy", "math", "comm", "MPI", "h5py", "jsp", "pickle", "os", "time")):
            for k in node.keywords:
                if k.arg in ps:
                    k.arg = k.arg + self.SUF
        return node


class ArgNames(ast.NodeTransformer):
    """@partial(jit, static_argnums=(0, 2)) -> @partial(jit, static_argnames=("self", "trial")): the same static arguments,
    named instead of numbered"""

    def visit_FunctionDef(self, node):
        self.generic_visit(node)
        names = [x.arg for x in node.args.posonlyargs + node.args.args]
        for d in node.decorator_list:
            if isinstance(d, ast.Call) and _ref_name(d.func) == "partial" and d.args and _ref_name(d.args[0]) == "jit":
                for kw in d.keywords:
                    if kw.arg == "static_argnums":
                        v = kw.value
                        nums = [v.value] if isinstance(v, ast.Constant) else [e.value for e in v.elts] if isinstance(
                            v, (ast.Tuple, ast.List)) and all(isinstance(e, ast.Constant) for e in v.elts) else None
                        if nums is not None and all(isinstance(i, int) and 0 <= i < len(names) for i in nums):
                            kw.arg = "static_argnames"
                            kw.value = ast.Tuple(elts=[ast.Constant(value=names[i]) for i in nums], ctx=ast.Load())
        return node


class SpinConst(ast.NodeTransformer):
    """x[0] -> x[UP__], x[1] -> x[DN__] for every literal subscript 0 / 1, with UP__, DN__ = 0, 1 at the top of the module"""

    def visit_Subscript(self, node):
        self.generic_visit(node)
        if isinstance(node.slice, ast.Constant) and node.slice.value in (0, 1) and not isinstance(node.slice.value, bool):
            node.slice = ast.copy_location(ast.Name(id="UP__" if node.slice.value == 0 else "DN__", ctx=ast.Load()), node.slice)
        return node

    def visit_Module(self, node):
        self.generic_visit(node)
        k = 0
        while k < len(node.body) and (isinstance(node.body[k], (ast.Import, ast.ImportFrom)) or (
                isinstance(node.body[k], ast.Expr) and isinstance(node.body[k].value, ast.Constant))):
            k += 1
        asg = ast.parse("UP__, DN__ = 0, 1").body[0]
        node.body.insert(k, asg)
        return node


class LambdaToDef(ast.NodeTransformer):
    """name = lambda a, b: expr   ->   def name(a, b): return expr   (a single-target assignment of a lambda, as a statement)"""

    def _fix(self, stmts):
        out = []
        for st in stmts:
            if isinstance(st, ast.Assign) and len(st.targets) == 1 and isinstance(st.targets[0], ast.Name) and \
                    isinstance(st.value, ast.Lambda):
                fn = ast.FunctionDef(name=st.targets[0].id, args=st.value.args, body=[ast.Return(value=st.value.body)],
                                     decorator_list=[], returns=None, type_comment=None, type_params=[])
                out.append(ast.copy_location(fn, st))
            else:
                out.append(st)
        return out

    def generic_visit(self, node):
        super().generic_visit(node)
        for fld in ("body", "orelse", "finalbody"):
            v = getattr(node, fld, None)
            if isinstance(v, list) and v and isinstance(v[0], ast.stmt):
                setattr(node, fld, self._fix(v))
        return node


class SelfAlias(ast.NodeTransformer):
    """in every method, each attribute self.X that the method only reads gets a local alias bound at the top of the body
    (x__ = self.X) and is read through it"""

    def visit_FunctionDef(self, node):
        self.generic_visit(node)
        a = node.args.posonlyargs + node.args.args
        if not a or a[0].arg != "self" or node.name.startswith("__"):
            return node
        stored = {n.attr for n in ast.walk(node) if isinstance(n, ast.Attribute) and isinstance(n.value, ast.Name)
                  and n.value.id == "self" and isinstance(n.ctx, (ast.Store, ast.Del))}
        called = {n.func.attr for n in ast.walk(node) if isinstance(n, ast.Call) and isinstance(n.func, ast.Attribute)
                  and isinstance(n.func.value, ast.Name) and n.func.value.id == "self"}
        nested_self = any(isinstance(n, (ast.FunctionDef, ast.Lambda)) and n is not node and
                          any(x.arg == "self" for x in n.args.posonlyargs + n.args.args) for n in ast.walk(node))
        if nested_self:
            return node
        reads = []
        for n in ast.walk(node):
            if isinstance(n, ast.Attribute) and isinstance(n.value, ast.Name) and n.value.id == "self" and \
                    isinstance(n.ctx, ast.Load) and n.attr not in stored and n.attr not in called and n.attr not in reads and \
                    not n.attr.startswith("_"):
                reads.append(n.attr)
        if not reads:
            return node

        class R(ast.NodeTransformer):
            def visit_Attribute(self, n):
                self.generic_visit(n)
                if isinstance(n.value, ast.Name) and n.value.id == "self" and isinstance(n.ctx, ast.Load) and n.attr in reads:
                    return ast.copy_location(ast.Name(id=n.attr + "__", ctx=ast.Load()), n)
                return n
        k = 1 if node.body and isinstance(node.body[0], ast.Expr) and isinstance(node.body[0].value, ast.Constant) else 0
        if len(node.body) == k + 1 and isinstance(node.body[k], (ast.Pass, ast.Raise)):
            return node
        new_body = [R().visit(st) for st in node.body[k:]]
        binds = [ast.parse(f"{x}__ = self.{x}").body[0] for x in reads]
        node.body = node.body[:k] + binds + new_body
        return node


_REORDER = None


def _ref_name(n):
    return n.id if isinstance(n, ast.Name) else (n.attr if isinstance(n, ast.Attribute) else None)


def _vmap_chain(v):
    """vmap(vmap(F, in_axes=A), in_axes=B) -> ([B, A] tuple nodes, F) ; None if v is not such a chain with literal axes"""
    axes = []
    while isinstance(v, ast.Call) and _ref_name(v.func) == "vmap" and len(v.args) == 1:
        ia = [k.value for k in v.keywords if k.arg == "in_axes"]
        if len(ia) != 1 or not isinstance(ia[0], ast.Tuple) or len(v.keywords) != 1:
            return None
        axes.append(ia[0])
        v = v.args[0]
    return (axes, v) if axes else None


def _reorderable():
    """private helpers (leading underscore) whose positional parameters can be reversed package-wide: one signature for
    every definition of the name, no defaults / *args / keyword-only parameters, no static argument other than self,
    and every reference to the name is a direct positional call or a vmap(.., in_axes=(..))(..) with literal axes"""
    global _REORDER
    if _REORDER is not None:
        return _REORDER
    defs, bad = {}, set()
    trees = [ast.parse(src_) for _pth, src_ in _package_sources()]
    for tree in trees:
        for n in ast.walk(tree):
            if isinstance(n, ast.FunctionDef) and n.name.startswith("_") and not n.name.startswith("__"):
                a = n.args
                names = [x.arg for x in a.args]
                if names and names[0] in ("self", "cls"):
                    names = names[1:]
                deco = " ".join(ast.unparse(d) for d in n.decorator_list)
                import re
                m = re.search(r"static_argnums=\(?([0-9, ]*)\)?", deco)
                nums = {int(x) for x in m.group(1).replace(" ", "").split(",") if x} if m else set()
                other_deco = [d for d in n.decorator_list if "jit" not in ast.unparse(d)]
                if other_deco or a.defaults or a.vararg or a.kwarg or a.kwonlyargs or a.posonlyargs or nums - {0} or len(names) < 2 or \
                        "dispatch" in deco or "register" in deco or "jvp" in deco or "staticmethod" in deco or "classmethod" in deco:
                    bad.add(n.name)
                if n.name in defs and defs[n.name] != names:
                    bad.add(n.name)
                defs[n.name] = names
    ok_refs = set()
    for tree in trees:
        for n in ast.walk(tree):
            if isinstance(n, ast.Call):
                nm = _ref_name(n.func)
                if nm in defs:
                    if n.keywords or any(isinstance(a, ast.Starred) for a in n.args) or len(n.args) != len(defs[nm]):
                        bad.add(nm)
                    ok_refs.add(id(n.func))
                ch = _vmap_chain(n.func)
                if ch is not None and _ref_name(ch[1]) in defs:
                    nm = _ref_name(ch[1])
                    if n.keywords or any(isinstance(a, ast.Starred) for a in n.args) or len(n.args) != len(defs[nm]) or \
                            any(len(ax.elts) != len(defs[nm]) for ax in ch[0]):
                        bad.add(nm)
                    ok_refs.add(id(ch[1]))
        for n in ast.walk(tree):
            if isinstance(n, (ast.Name, ast.Attribute)) and _ref_name(n) in defs and id(n) not in ok_refs and \
                    isinstance(getattr(n, "ctx", None), ast.Load):
                bad.add(_ref_name(n))
    _REORDER = {k: v for k, v in defs.items() if k not in bad}
    return _REORDER


class ReorderParams(ast.NodeTransformer):
    """reverse the positional parameters of every private helper, at its definition(s) and at every call"""

    def visit_FunctionDef(self, node):
        self.generic_visit(node)
        if node.name in _reorderable():
            a = node.args
            head = a.args[:1] if a.args and a.args[0].arg in ("self", "cls") else []
            a.args = head + list(reversed(a.args[len(head):]))
        return node

    def visit_Call(self, node):
        self.generic_visit(node)
        tab = _reorderable()
        if _ref_name(node.func) in tab:
            node.args = list(reversed(node.args))
            return node
        ch = _vmap_chain(node.func)
        if ch is not None and _ref_name(ch[1]) in tab:
            node.args = list(reversed(node.args))
            for ax in ch[0]:
                ax.elts = list(reversed(ax.elts))
        return node


def transform_module(src: str, kind: str) -> str:
    tree = ast.parse(src)
    tr = {"reorder": ReorderParams, "kwcalls": KwCalls, "commute": CommuteConst, "augassign": AugToAssign, "rettemp": ReturnTemp, "threeaddr": ThreeAddress,
          "swapbranches": SwapBranches, "guardclause": GuardClauses, "comp2loop": CompToLoop, "delegate": Delegate,
          "paramrename": ParamRename, "argnames": ArgNames, "spinconst": SpinConst,
          "lambda2def": LambdaToDef, "selfalias": SelfAlias}[kind]()
    tree = tr.visit(tree)
    ast.fix_missing_locations(tree)
    return ast.unparse(tree) + "\n"


def overlays(kind: str):
    ov = {}
    for path in sorted(glob.glob(os.path.join(REPO, "ad_afqmc", "*.py"))):
        src = open(path).read()
        rel = os.path.relpath(path, REPO)
        if kind == "reformat":
            new = ast.unparse(ast.parse(src)) + "\n"
        elif kind == "rename":
            new = rename_module(src)
        elif kind in ("commute", "augassign", "rettemp", "threeaddr", "swapbranches", "guardclause", "comp2loop", "delegate", "kwcalls", "reorder", "paramrename", "argnames", "spinconst", "lambda2def", "selfalias"):
            new = transform_module(src, kind)
        else:
            new = rename_module(src)
        compile(new, rel, "exec")
        ov[rel] = new
    return ov


_OV = {}


def run_one(args):
    kind, pid = args
    from afqmc_lint.model import AnalysisError
    from afqmc_lint.runner import analyse
    try:
        if kind not in _OV:
            _OV[kind] = overlays(kind)
        rep = analyse(pid, REPO, _OV[kind], "quick")
        bad = [o.key() for o in rep.unlisted()]
        return pid, "violations" if bad else "ok", bad[:6], len(rep.obligations)
    except AnalysisError as e:
        return pid, "analysis-error", [str(e)[:300]], 0
    except Exception as e:  # noqa
        import traceback
        return pid, "crash", [traceback.format_exc(limit=3)[-300:].replace("\n", " | ")], 0


def run_mutant_under(args):
    """the self-test mutant applied first, then the behaviour-preserving transformation on top: is it still reported?"""
    kind, pid, m = args
    from afqmc_lint.model import AnalysisError
    from afqmc_lint.runner import analyse, apply_mutant
    try:
        mov = apply_mutant(REPO, m)
        if mov is None:
            return pid, m["id"], "inapplicable", []
        if kind in ("kwcalls", "reorder"):
            # these two rewrite call sites from a package-wide signature table: it has to be the mutated package's
            global _SRC, _SIGS, _REORDER
            base = dict(_package_sources()) if _SRC is None else None
            _SRC = None
            srcs = dict(_package_sources())
            srcs.update({r_: s_ for r_, s_ in mov.items() if r_.startswith("ad_afqmc/") and r_.count("/") == 1})
            _SRC, _SIGS, _REORDER = srcs, None, None
            try:
                ov = {r_: transform_module(s_, kind) for r_, s_ in srcs.items()}
                for r_, s_ in mov.items():
                    ov.setdefault(r_, s_)
            finally:
                _SRC, _SIGS, _REORDER = None, None, None
            rep = analyse(pid, REPO, ov, "quick")
            bad = [o.key() for o in rep.unlisted()]
            if m.get("expect_silent"):
                return pid, m["id"], "ok" if not bad else "false-alarm", bad[:3]
            return pid, m["id"], "ok" if bad else "missed", bad[:3]
        if kind not in _OV:
            _OV[kind] = overlays(kind)
        ov = dict(_OV[kind])
        for rel, src in mov.items():
            if not rel.startswith("ad_afqmc/") or rel.count("/") != 1:
                ov[rel] = src
                continue
            if kind == "reformat":
                ov[rel] = ast.unparse(ast.parse(src)) + "\n"
            elif kind == "rename":
                ov[rel] = rename_module(src)
            else:
                ov[rel] = transform_module(src, kind)
        rep = analyse(pid, REPO, ov, "quick")
        bad = [o.key() for o in rep.unlisted()]
        if m.get("expect_silent"):
            return pid, m["id"], "ok" if not bad else "false-alarm", bad[:3]
        return pid, m["id"], "ok" if bad else "missed", bad[:3]
    except AnalysisError as e:
        # refusing to decide is not a miss, but it is not a diagnosis either
        return pid, m["id"], "analysis-error", [str(e)[:200]]
    except Exception as e:  # noqa
        import traceback
        return pid, m["id"], "crash", [traceback.format_exc(limit=3)[-300:].replace("\n", " | ")]


def mutants_under(kinds, pids):
    from afqmc_lint.runner import load_mutants
    rc = 0
    for kind in kinds:
        work = [(kind, p, m) for p in pids for m in load_mutants(p)]
        with ProcessPoolExecutor(16) as ex:
            res = list(ex.map(run_mutant_under, work, chunksize=4))
        okn = sum(1 for r in res if r[2] in ("ok", "inapplicable"))
        for pid, mid, verdict, detail in res:
            if verdict not in ("ok", "inapplicable"):
                rc = 1
                print(f"[{kind}+mutant] {pid} {mid}: {verdict} {detail[:1]}")
        print(f"[{kind}+mutant] {okn}/{len(res)} mutants keep their verdict under the transformation")
    return rc


def main():
    if "--mutants" in sys.argv:
        sys.argv.remove("--mutants")
        ALL_ = ("reformat", "rename", "commute", "augassign", "rettemp", "threeaddr", "swapbranches", "guardclause", "comp2loop", "delegate", "kwcalls", "reorder", "paramrename", "argnames", "spinconst", "lambda2def", "selfalias")
        kinds = [a for a in sys.argv[1:] if a in ALL_] or list(ALL_)
        pids = [a.upper() for a in sys.argv[1:] if a.upper().startswith("C") and a[1:].isdigit()] or [f"C{i:02d}" for i in range(1, 21)]
        return mutants_under(kinds, pids)
    ALL = ("reformat", "rename", "commute", "augassign", "rettemp", "threeaddr", "swapbranches", "guardclause", "comp2loop", "delegate", "kwcalls", "reorder", "paramrename", "argnames", "spinconst", "lambda2def", "selfalias")
    kinds = [a for a in sys.argv[1:] if a in ALL] or list(ALL)
    pids = [a for a in sys.argv[1:] if a.upper().startswith("C") and a[1:].isdigit()] or [f"C{i:02d}" for i in range(1, 21)]
    rc = 0
    for kind in kinds:
        with ProcessPoolExecutor(10) as ex:
            res = list(ex.map(run_one, [(kind, p.upper()) for p in pids]))
        for pid, verdict, detail, n in res:
            if verdict != "ok":
                rc = 1
                print(f"[{kind}] {pid} {verdict}")
                for d in detail:
                    print("     ", d[:300])
        print(f"[{kind}] {sum(1 for r in res if r[1] == 'ok')}/{len(res)} checks silent")
    return rc


if __name__ == "__main__":
    sys.exit(main())
