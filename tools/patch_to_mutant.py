#!/venv/bin/python
"""Turn kept seeded / benign patches into self-test overlays, so that the thorough tier re-checks them on every run.

usage: tools/patch_to_mutant.py            (rewrites the 'seed-*' / 'benign-*' entries of afqmc_lint/mutants/Cxx.json)

A unified diff hunk becomes one edit {file, find, replace}: `find` is the hunk's old text (context + removed lines),
`replace` its new text (context + added lines).  The overlay is applied in memory by the self-test exactly like the
hand-written mutants; nothing is ever written to /repo.

  seeded/<id>  with result.json  status == reported by the check of property P  ->  mutants/P.json  {"id": "seed-<id>", "expect": <rule>}
  benign/<id>  (all)                                                          ->  mutants/<its property>.json {"id": "benign-<id>", "expect_silent": true}

Seeded changes that no check reports (the formula / numerical questions listed in DESIGN.md 9.7) are not turned into
mutants: the self-test must not claim them.
"""
from __future__ import annotations

import glob
import json
import os
import re
import sys

VERIF = os.path.dirname(os.path.dirname(os.path.abspath(__file__)))
MUT = os.path.join(VERIF, "afqmc_lint", "mutants")


def hunks(patch_text: str):
    """[(file, old_text, new_text)] for every hunk"""
    out = []
    cur_file = None
    old, new = [], []
    in_hunk = False
    start = 1

    def flush():
        nonlocal old, new
        if in_hunk and cur_file and (old or new):
            out.append((cur_file, "".join(old), "".join(new), start))
        old, new = [], []

    for line in patch_text.splitlines(keepends=True):
        if line.startswith("diff --git"):
            flush()
            in_hunk = False
            continue
        if line.startswith("--- "):
            continue
        if line.startswith("+++ "):
            m = re.match(r"\+\+\+ b/(.*)", line.strip())
            cur_file = m.group(1) if m else None
            continue
        if line.startswith("@@"):
            flush()
            in_hunk = True
            m = re.match(r"@@ -(\d+)", line)
            start = int(m.group(1)) if m else 1
            continue
        if not in_hunk:
            continue
        if line.startswith("\\"):
            continue
        tag, body = line[:1], line[1:]
        if tag == " " or (tag == "\n" and line == "\n"):
            body = body if tag == " " else "\n"
            old.append(body)
            new.append(body)
        elif tag == "-":
            old.append(body)
        elif tag == "+":
            new.append(body)
    flush()
    return out


def entry_from_patch(pid: str, path: str) -> dict:
    hs = hunks(open(path).read())
    edits = []
    cur = {}          # file -> text with the earlier hunks of this patch applied
    delta = {}        # file -> net length change so far
    for f, o, n, start in hs:
        e = {"file": f, "find": o, "replace": n}
        src_path = os.path.join("/repo", f)
        if os.path.exists(src_path) and o:
            if f not in cur:
                cur[f] = open(src_path).read()
                delta[f] = 0
            src = cur[f]
            orig = open(src_path).read()
            off = sum(len(l) for l in orig.splitlines(keepends=True)[:max(start - 1, 0)]) + delta[f]
            # the occurrence of the old text at (or nearest to) the position the hunk names
            pos, j = [], -1
            while True:
                j = src.find(o, j + 1)
                if j < 0:
                    break
                pos.append(j)
            if pos:
                k = min(range(len(pos)), key=lambda i: abs(pos[i] - off))
                if len(pos) > 1:
                    e["occurrence"] = k + 1
                cur[f] = src[:pos[k]] + n + src[pos[k] + len(o):]
                delta[f] += len(n) - len(o)
        edits.append(e)
    return {"id": pid, "edits": edits, "file": edits[0]["file"] if edits else "", "find": "", "replace": ""}


def main():
    per_prop = {}
    for d in sorted(glob.glob(os.path.join(VERIF, "seeded", "C??-*"))):
        sid = os.path.basename(d)
        rj = os.path.join(d, "result.json")
        if not os.path.exists(rj):
            continue
        res = json.load(open(rj))
        det = res.get("detected_by", {})
        target = sid[:3]
        props = [target] if det.get(target, {}).get("rc") == 1 else [p for p, v in sorted(det.items()) if v.get("rc") == 1][:1]
        for pr in props:
            e = entry_from_patch(f"seed-{sid}", os.path.join(d, "patch.diff"))
            rules = det[pr].get("rules") or []
            e["expect"] = None
            e["note"] = f"seeded change {sid} (sub-agent); reported by {pr}: {'/'.join(rules)}"
            per_prop.setdefault(pr, []).append(e)
    for d in sorted(glob.glob(os.path.join(VERIF, "benign", "C??-*"))):
        bid = os.path.basename(d)
        e = entry_from_patch(f"benign-{bid}", os.path.join(d, "patch.diff"))
        e["expect_silent"] = True
        e["note"] = f"behaviour-preserving change {bid} (sub-agent)"
        per_prop.setdefault(bid[:3], []).append(e)
    total = 0
    for i in range(1, 21):
        pr = f"C{i:02d}"
        path = os.path.join(MUT, f"{pr}.json")
        cur = json.load(open(path)) if os.path.exists(path) else []
        cur = [m for m in cur if not (m["id"].startswith("seed-") or m["id"].startswith("benign-"))]
        add = per_prop.get(pr, [])
        total += len(add)
        json.dump(cur + add, open(path, "w"), indent=1)
        print(pr, f"{len(cur)} hand-written + {len(add)} from patches")
    print("total from patches", total)


if __name__ == "__main__":
    sys.exit(main())
