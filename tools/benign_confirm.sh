#!/bin/bash
# usage: tools/benign_confirm.sh <patch.diff> <demo.py> <tag>
# scratch worktree: demo digest on the clean tree, apply patch, demo digest again (must be identical), pinned suite
# (must still be 40 passed / 1 failed = test_propagate); prints one verdict line; removes the worktree.
set -u
# single-threaded numerics: multi-threaded BLAS / XLA reductions are not bitwise reproducible run to run
export OMP_NUM_THREADS=1 MKL_NUM_THREADS=1 OPENBLAS_NUM_THREADS=1 XLA_FLAGS="--xla_cpu_multi_thread_eigen=false intra_op_parallelism_threads=1"
patch=$(readlink -f "$1"); demo=$(readlink -f "$2"); tag=$3
wt=/tmp/bconfirm_$tag
git -C /repo worktree remove --force "$wt" >/dev/null 2>&1
git -C /repo worktree add --detach "$wt" HEAD -q || { echo "$tag CONFIRM-ERROR worktree"; exit 2; }
cd "$wt"
clean=$(timeout 900 /venv/bin/python "$demo" 2>&1 | grep -E "^DIGEST" | md5sum | cut -c1-12)
nclean=$(timeout 900 /venv/bin/python "$demo" 2>&1 | grep -cE "^DIGEST")
if ! git apply "$patch"; then echo "$tag CONFIRM-ERROR patch does not apply"; cd /; git -C /repo worktree remove --force "$wt"; exit 2; fi
patched=$(timeout 900 /venv/bin/python "$demo" 2>&1 | grep -E "^DIGEST" | md5sum | cut -c1-12)
log=$(timeout 1800 /venv/bin/python -m pytest -q -ra -p no:cacheprovider --timeout=900 2>&1)
tests=$(echo "$log" | tail -1)
failed=$(echo "$log" | grep -E "^(FAILED|ERROR)" | sed 's/ - .*//' | tr '\n' ' ')
cd /
git -C /repo worktree remove --force "$wt"
same=no; [ "$clean" = "$patched" ] && [ "$nclean" -ge 1 ] && same=yes
echo "$tag digest_lines=$nclean same=$same clean=$clean patched=$patched tests=[$tests] failed=[$failed]"
