#!/bin/bash
# usage: [REPO=/tmp/repo_w] tools/ptry.sh <patch.diff> Cxx [Cyy ...]
# apply a patch to a checkout of the repository (default /repo; a scratch worktree when REPO is set), run the named
# checks (quick, no evidence), undo
p=$1; shift
R=${REPO:-/repo}
[ -z "$(git -C $R status --porcelain --untracked-files=no)" ] || { echo "$R dirty"; exit 2; }
git -C $R apply "$p" || exit 2
for c in "$@"; do /verif/check $c --tier quick --no-write --repo $R 2>&1 | grep -v "WARNING conda" | cut -c1-${W:-400}; done
git -C $R checkout -- .
