#!/venv/bin/python
"""Apply every kept behaviour-preserving change (/verif/benign/<id>/patch.diff) to /repo, run the 20 quick checks,
undo; any exit code != 0 is a false alarm (1) or a robustness failure (2) of the machinery.
usage: tools/benign_rerun.py [id-prefix ...]"""
import glob, json, os, sys
sys.path.insert(0, os.path.dirname(os.path.abspath(__file__)))
from seed_eval import evaluate  # noqa: E402
VERIF = os.path.dirname(os.path.dirname(os.path.abspath(__file__)))
want = sys.argv[1:]
tot = bad = 0
for d in sorted(glob.glob(os.path.join(VERIF, "benign", "*"))):
    sid = os.path.basename(d)
    if want and not any(sid.startswith(w) for w in want):
        continue
    res = evaluate(os.path.join(d, "patch.diff"))
    by = {pid: {"rc": rc, "first": (hits[0][:260] if hits else "")} for pid, rc, hits in res if rc != 0}
    json.dump({"alarms": by, "silent": not by}, open(os.path.join(d, "result.json"), "w"), indent=1)
    tot += 1
    bad += bool(by)
    if by:
        print(f"{sid:8s} " + " | ".join(f"{p} rc={v['rc']} {v['first'][:150]}" for p, v in sorted(by.items())))
print(f"{tot - bad}/{tot} behaviour-preserving changes leave all 20 checks silent")
