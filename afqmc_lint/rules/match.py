"""Structural matchers over value-graph terms shared by the rule families."""

from __future__ import annotations

from typing import Dict, Iterable, List, Optional, Tuple

from ..symex import (T, array_fn, call_parts, const, func_name, getitem, is_const, mk, show,
                     strip_wrappers, subterms)


def m_where(t: T) -> Optional[Tuple[T, T, T]]:
    """where(c, a, b) (jnp or np) -> (c, a, b)."""
    t = strip_wrappers(t)
    if t.op == "call" and array_fn(t) == "where":
        _, pos, kws = call_parts(t)
        if len(pos) == 3:
            return pos[0], pos[1], pos[2]
    return None


def m_binop(t: T, op: str) -> Optional[Tuple[T, T]]:
    if t.op == "binop" and t.args[0] == op:
        return t.args[1], t.args[2]
    return None


def m_cmp(t: T) -> Optional[Tuple[str, T, T]]:
    if t.op == "cmp":
        return t.args[0], t.args[1], t.args[2]
    return None


def m_arrcall(t: T, *names: str) -> Optional[List[T]]:
    """jnp.<name>(args) -> positional args.  Asking for "abs" also accepts the builtin abs(x), np.absolute / fabs:
    they are the same function on arrays."""
    if t.op == "call" and array_fn(t) in names:
        return call_parts(t)[1]
    if "abs" in names and t.op == "call":
        fn = func_name(t) or ""
        if fn == "builtins.abs" or fn.split(".")[-1] in ("absolute", "fabs"):
            return call_parts(t)[1]
    return None


def m_method(t: T, *names: str) -> Optional[Tuple[T, List[T]]]:
    """x.<name>(args) -> (x, args)."""
    if t.op == "call" and t.args[0].op == "attr" and t.args[0].args[1] in names:
        f, pos, _ = call_parts(t)
        return f.args[0], pos
    return None


def strip_reshape(t: T) -> T:
    """Peel x.reshape(...), jnp.array(x), x.copy() (shape bookkeeping only)."""
    while True:
        t2 = strip_wrappers(t)
        m = m_method(t2, "reshape")
        if m is not None:
            t = m[0]
            continue
        if t2 is t:
            return t
        t = t2


def strip_real(t: T) -> T:
    """Peel .real / jnp.real."""
    t = strip_wrappers(t)
    if t.op == "attr" and t.args[1] == "real":
        return t.args[0]
    a = m_arrcall(t, "real")
    if a is not None and len(a) == 1:
        return a[0]
    return t


def product_factors(t: T) -> List[T]:
    """Flatten a*b*c (parenthesised any way) into factors."""
    t = strip_wrappers(t)
    m = m_binop(t, "*")
    if m is None:
        mm = m_arrcall(t, "multiply")
        if mm is not None and len(mm) == 2:
            return product_factors(mm[0]) + product_factors(mm[1])
        return [t]
    return product_factors(m[0]) + product_factors(m[1])


def sum_terms(t: T) -> List[Tuple[int, T]]:
    """Flatten a + b - c into signed terms."""
    t = strip_wrappers(t)
    if t.op == "binop" and t.args[0] in ("+", "-"):
        l = sum_terms(t.args[1])
        r = sum_terms(t.args[2])
        if t.args[0] == "-":
            r = [(-s, x) for s, x in r]
        return l + r
    if t.op == "unop" and t.args[0] == "-":
        return [(-s, x) for s, x in sum_terms(t.args[1])]
    return [(1, t)]


def zero_guard(t: T) -> Optional[Tuple[str, T, T, T]]:
    """where(cmp(v', thr), 0, v) / where(isnan(v'), 0, v) -> (kind, tested, threshold, passed)
    kind in {'<', '>', 'isnan', ...}.  None if t is not a where with a zero true-branch."""
    w = m_where(t)
    if w is None:
        return None
    c, a, b = w
    if not (a.op == "const" and a.args[0] in (0, 0.0)):
        return None
    cm = m_cmp(c)
    if cm is not None:
        return cm[0], cm[1], cm[2], b
    nn = m_arrcall(c, "isnan")
    if nn is not None and len(nn) == 1:
        return "isnan", nn[0], const(None), b
    return "?", c, const(None), b


def peel_guards(t: T) -> Tuple[List[Tuple[str, T, T, T]], T]:
    """Peel a chain of zeroing guards from the outside in: returns (guards, core)."""
    guards = []
    while True:
        g = zero_guard(t)
        if g is None:
            return guards, strip_wrappers(t)
        guards.append(g)
        t = g[3]


def contains_term(t: T, x: T) -> bool:
    return any(s is x for s in subterms(t))


def m_getkey(t: T, key: str) -> Optional[T]:
    """X['key'] -> X"""
    if t.op == "getitem" and t.args[1].op == "const" and t.args[1].args[0] == key:
        return t.args[0]
    return None


def const_num(t: T) -> Optional[float]:
    if t.op == "const" and isinstance(t.args[0], (int, float)) and not isinstance(t.args[0], bool):
        return float(t.args[0])
    return None
