"""KEYS-1 -- dictionary-key def-before-use (typestate on dict keys), interprocedural.

For a function f evaluated under a receiver class, the *summary* records
  reads   : {(param, key)}  keys of a dict parameter read before f (or anything it
            calls) has written them  -- upward-exposed reads;
  returns : per returned tuple element, which parameter flows back out and which keys
            are written on every path (must-writes).
Summaries are composed along the resolved call graph (polymorphic callees: union of
reads, intersection of writes), through lax.scan / vmap bodies, closures and phi joins.
"""

from __future__ import annotations

from typing import Dict, FrozenSet, List, Optional, Set, Tuple

from ..model import AnalysisError, FuncInfo, Program, bind_call
from ..symex import bound_receiver as _bound_receiver
from ..symex import (T, Evaluator, Frame, call_parts, const, func_name, getitem, is_const,
                     match_scan, mk, show, strip_wrappers, sym)


class Summary:
    def __init__(self):
        self.reads: Set[Tuple[str, str]] = set()
        self.read_sites: Dict[Tuple[str, str], Tuple[str, int]] = {}
        # index (None for a non-tuple return) -> (param name or None, must-write keys)
        self.returns: Dict[Optional[int], Tuple[Optional[str], FrozenSet[str]]] = {}
        self.missing: List[Tuple[str, int, str]] = []  # reads of keys that are certainly absent


class KeyAnalysis:
    def __init__(self, p: Program):
        self.p = p
        self.cache: Dict[Tuple[str, Optional[str]], Summary] = {}
        self.in_progress: Set[Tuple[str, Optional[str]]] = set()
        self.unresolved = 0
        self.unresolved_sites: List = []

    # ------------------------------------------------------------------
    def summary(self, fi: FuncInfo, self_class: Optional[str] = None) -> Summary:
        key = (fi.qualname, self_class)
        if key in self.cache:
            return self.cache[key]
        if key in self.in_progress:
            return Summary()  # recursion: assume nothing (not present in the governed code)
        self.in_progress.add(key)
        try:
            s = self._compute(fi, self_class)
        finally:
            self.in_progress.discard(key)
        self.cache[key] = s
        return s

    def _compute(self, fi: FuncInfo, self_class: Optional[str]) -> Summary:
        ev = Evaluator(self.p)
        ev.open_transforms = True
        ev.record_terms = []
        fr = ev.eval_function(fi, self_class=self_class or fi.cls)
        s = Summary()
        params = {p.name for p in fi.params}
        A = _Resolver(self, ev, params)
        # direct reads
        seen = set()
        for t, line, f2 in ev.record_terms:
            if t.uid in seen:
                continue
            seen.add(t.uid)
            if t.op == "getitem" and t.args[1].op == "const" and isinstance(t.args[1].args[0], str):
                k = t.args[1].args[0]
                r = A.resolve(t.args[0], k, f2)
                if r[0] == "param":
                    s.reads.add((r[1], k))
                    s.read_sites.setdefault((r[1], k), (fi.qualname, line))
                elif r[0] == "missing":
                    s.missing.append((fi.qualname, line, k))
                elif r[0] == "unknown":
                    self.unresolved += 1
                    self.unresolved_sites.append((fi.qualname, line, k, show(t.args[0], maxdepth=3)))
        # reads of callees mapped back onto our parameters
        for e in ev.events:
            if e.kind != "call":
                continue
            t = e.data
            f, pos, kws = call_parts(t)
            cands = ev.resolve_callees(f, e.frame)
            if not cands:
                continue
            for callee, recv_cls in cands:
                if callee.node is None or callee.qualname.endswith(">"):
                    continue
                bound_self = (f.op == "cls" and not callee.is_staticmethod) or _bound_receiver(f, callee)
                ok, _, mapping = bind_call(callee, len(pos), list(kws.keys()), bound_self)
                if not ok:
                    continue
                cs = self.summary(callee, recv_cls if f.op == "attr" else None)
                for (q, k) in cs.reads:
                    m = mapping.get(q)
                    if m is None:
                        continue
                    arg = pos[m[1]] if m[0] == "pos" else kws[m[1]]
                    r = A.resolve(arg, k, e.frame)
                    if r[0] == "param":
                        s.reads.add((r[1], k))
                        s.read_sites.setdefault((r[1], k), cs.read_sites.get((q, k), (callee.qualname, e.line)))
                    elif r[0] == "missing":
                        s.missing.append((fi.qualname, e.line, k))
                s.missing.extend(cs.missing)
        # return summary
        rets = fr.returns
        if rets:
            per_index: Dict[Optional[int], List[Tuple[Optional[str], FrozenSet[str]]]] = {}
            for path, term, line in rets:
                if term.op == "tuple":
                    for i, el in enumerate(term.args):
                        per_index.setdefault(i, []).append(A.chain(el, fr))
                else:
                    per_index.setdefault(None, []).append(A.chain(term, fr))
            for idx, lst in per_index.items():
                if len(lst) != len(rets):
                    continue
                bases = {b for b, _ in lst}
                w = frozenset.intersection(*[w for _, w in lst])
                s.returns[idx] = (bases.pop() if len(bases) == 1 else None, w)
        return s


class _Resolver:
    def __init__(self, ka: KeyAnalysis, ev: Evaluator, params: Set[str]):
        self.ka = ka
        self.ev = ev
        self.params = params

    def _callee_return(self, t: T, fr: Optional[Frame], idx: Optional[int]):
        """For an internal call term: (argument term that flows out at return index idx,
        must-write keys) or None."""
        f, pos, kws = call_parts(t)
        cands = self.ev.resolve_callees(f, fr)
        if not cands:
            return None
        out_arg = None
        fresh = False
        first = True
        writes: Optional[FrozenSet[str]] = None
        for callee, recv_cls in cands:
            if callee.qualname.endswith(">"):
                return None
            bound_self = (f.op == "cls" and not callee.is_staticmethod) or _bound_receiver(f, callee)
            ok, _, mapping = bind_call(callee, len(pos), list(kws.keys()), bound_self)
            if not ok:
                return None
            cs = self.ka.summary(callee, recv_cls if f.op == "attr" else None)
            ret = cs.returns.get(idx)
            if ret is None:
                return None
            if ret[0] is None:
                arg = None  # a dict built inside the callee
            else:
                m = mapping.get(ret[0])
                if m is None:
                    return None
                arg = pos[m[1]] if m[0] == "pos" else kws[m[1]]
            if first:
                out_arg, first = arg, False
            elif out_arg is not arg:
                return None
            writes = ret[1] if writes is None else (writes & ret[1])
        return out_arg, writes or frozenset()

    def resolve(self, X: T, k: str, fr: Optional[Frame], depth: int = 0):
        """Where does key k of dict-valued term X come from?"""
        for _ in range(200):
            X = strip_wrappers(X)
            if X.op == "sym":
                if X.args[0] in self.params:
                    return ("param", X.args[0])
                return ("unknown",)
            if X.op == "setitem":
                b, key, v = X.args
                if key.op == "const":
                    if key.args[0] == k:
                        return ("provided",)
                    X = b
                    continue
                return ("unknown",)
            if X.op == "dict":
                for j in range(0, len(X.args), 2):
                    kk = X.args[j]
                    if kk.op == "const" and kk.args[0] == k:
                        return ("provided",)
                    if kk.op != "const":
                        return ("unknown",)
                return ("missing",)
            if X.op == "phi":
                a = self.resolve(X.args[1], k, fr, depth + 1)
                b = self.resolve(X.args[2], k, fr, depth + 1)
                for r in (a, b):
                    if r[0] == "missing":
                        return r
                for r in (a, b):
                    if r[0] == "param":
                        return r
                for r in (a, b):
                    if r[0] == "unknown":
                        return r
                return ("provided",)
            if X.op in ("scan_carry", "scan_x", "vmap_elem"):
                X = X.args[0]
                continue
            if X.op in ("havoc",):
                X = X.args[2]
                continue
            if X.op == "loopout":
                # (lid, name, init, final): the key is there if it was there before the loop
                X = X.args[2]
                continue
            if X.op == "getitem" and X.args[1].op == "const" and isinstance(X.args[1].args[0], int):
                inner = X.args[0]
                idx = X.args[1].args[0]
                sc = match_scan(inner) if inner.op == "call" else None
                if sc is not None and idx == 0:
                    X = sc[1]
                    continue
                if inner.op == "call":
                    r = self._callee_return(inner, fr, idx)
                    if r is not None:
                        if k in r[1]:
                            return ("provided",)
                        if r[0] is None:
                            return ("unknown",)
                        X = r[0]
                        continue
                return ("unknown",)
            if X.op == "call":
                r = self._callee_return(X, fr, None)
                if r is not None:
                    if k in r[1]:
                        return ("provided",)
                    if r[0] is None:
                        return ("unknown",)
                    X = r[0]
                    continue
                return ("unknown",)
            return ("unknown",)
        return ("unknown",)

    def chain(self, X: T, fr: Optional[Frame]) -> Tuple[Optional[str], FrozenSet[str]]:
        """(base parameter, keys certainly written) of a dict-valued term."""
        writes: Set[str] = set()
        for _ in range(400):
            X = strip_wrappers(X)
            if X.op == "sym":
                return (X.args[0] if X.args[0] in self.params else None, frozenset(writes))
            if X.op == "setitem":
                b, key, v = X.args
                if key.op == "const" and isinstance(key.args[0], str):
                    writes.add(key.args[0])
                X = b
                continue
            if X.op == "dict":
                for j in range(0, len(X.args), 2):
                    kk = X.args[j]
                    if kk.op == "const" and isinstance(kk.args[0], str):
                        writes.add(kk.args[0])
                return (None, frozenset(writes))
            if X.op == "phi":
                a = self.chain(X.args[1], fr)
                b = self.chain(X.args[2], fr)
                base = a[0] if a[0] == b[0] else None
                return (base, frozenset(writes | (a[1] & b[1])))
            if X.op in ("scan_carry", "scan_x", "vmap_elem"):
                X = X.args[0]
                continue
            if X.op == "getitem" and X.args[1].op == "const" and isinstance(X.args[1].args[0], int):
                inner = X.args[0]
                idx = X.args[1].args[0]
                sc = match_scan(inner) if inner.op == "call" else None
                if sc is not None and idx == 0:
                    X = sc[1]
                    continue
                if inner.op == "call":
                    r = self._callee_return(inner, fr, idx)
                    if r is not None:
                        writes |= set(r[1])
                        if r[0] is None:
                            return (None, frozenset(writes))
                        X = r[0]
                        continue
                return (None, frozenset(writes))
            if X.op == "call":
                r = self._callee_return(X, fr, None)
                if r is not None:
                    writes |= set(r[1])
                    if r[0] is None:
                        return (None, frozenset(writes))
                    X = r[0]
                    continue
                return (None, frozenset(writes))
            return (None, frozenset(writes))
        return (None, frozenset(writes))


_ka_cache: Dict[int, KeyAnalysis] = {}


def key_analysis(p: Program) -> KeyAnalysis:
    ka = _ka_cache.get(id(p))
    if ka is None:
        ka = KeyAnalysis(p)
        _ka_cache.clear()
        _ka_cache[id(p)] = ka
    return ka


def reads_of(ka: KeyAnalysis, cls: str, methods, param: str) -> Dict[str, Tuple[str, int]]:
    """Keys of dict parameter `param` read (upward-exposed) by the MRO-resolved `methods`
    of class cls, evaluated with self bound to cls.  {key: (function, line)}"""
    out: Dict[str, Tuple[str, int]] = {}
    for m in methods:
        fi = ka.p.lookup_method(cls, m)
        impls = [fi] if fi is not None else []
        if fi is not None and fi.is_dispatch_base:
            impls = ka.p.lookup_dispatch(cls, m)
        for f in impls:
            if f.is_refusal() or f.is_abstract:
                continue
            s = ka.summary(f, cls)
            for (p_, k) in s.reads:
                if p_ == param:
                    out.setdefault(k, s.read_sites.get((p_, k), (f.qualname, f.lineno)))
    return out


def writes_of(ka: KeyAnalysis, cls: str, method: str, param: str) -> FrozenSet[str]:
    fi = ka.p.lookup_method(cls, method)
    if fi is None:
        raise AnalysisError(f"{cls}.{method} not found")
    s = ka.summary(fi, cls)
    for idx, (base, w) in s.returns.items():
        if base == param:
            return w
    return frozenset()


_TBK: Dict[int, FrozenSet[str]] = {}


def trial_built_keys(ka: KeyAnalysis) -> FrozenSet[str]:
    """ham_data keys written by some trial's _build_measurement_intermediates: the measurement intermediates, which a
    propagation step only ever reads through trial.calc_* (their being built is decided with the trial, C02 / C03)"""
    k_ = id(ka.p)
    if k_ in _TBK:
        return _TBK[k_]
    out = set()
    for q in ka.p.subclasses("wavefunctions.wave_function"):
        fi = ka.p.lookup_method(q, "_build_measurement_intermediates")
        if fi is None or fi.is_abstract or fi.is_refusal():
            continue
        try:
            out |= set(writes_of(ka, q, "_build_measurement_intermediates", "ham_data"))
        except AnalysisError:
            continue
    _TBK.clear()
    _TBK[k_] = frozenset(out)
    return _TBK[k_]
