"""COV-1 -- the auxiliary-field index is eliminated by contraction only.

The Cholesky vectors L_g are defined up to an orthogonal mixing L_g -> sum_h O_gh L_h of the auxiliary index (the
Hamiltonian sum_g L_g^2 does not change), and so are the quantities carrying that index: the mean-field shifts, the
auxiliary fields (an isotropic Gaussian), the force bias, the field shifts.  Whatever the propagation computes from
them without an index g left over (the constant h0_prop, the one-body operator in exp_h1, the exponents of the
importance function) must not depend on the choice -- which in index notation means that g is eliminated by pairing
two tensors that carry it: sum_g a_g b_g, sum_g a_g^2, einsum('g,gik->ik').  A plain sum over g of a single tensor
(sum_g a_g, (sum_g a_g)^2, einsum('gik->ik')) is a positive witness: it changes under the mixing.

Decided on the value graph with the axis-kind interpreter (rules/kinds.py) extended by transfer functions for sum and
integer powers: for a reduction that removes an axis of kind 'G' the number of G-carrying factors of the summand at
that axis is counted (products add, integer powers multiply, sums must agree, linear wrappers pass through, a vmap over
the Cholesky axis of a body *linear* in the vector counts once).  Odd count -> violation; a count that cannot be
established -> not judged.
"""

from __future__ import annotations

from typing import List, Optional, Tuple

from ..symex import (T, array_fn, call_parts, const, match_vmap, mk, show, strip_wrappers, subterms)
from .kinds import Kind, KindEngine

_LINEAR_ATTRS = ("real", "imag", "T")
_LINEAR_METHODS = ("conj", "conjugate", "copy", "astype")
_LINEAR_CALLS = ("conj", "conjugate", "real", "imag", "negative", "array", "asarray")


def _int_const(t: T) -> Optional[int]:
    t = strip_wrappers(t)
    if t.op == "const" and isinstance(t.args[0], (int, float)) and not isinstance(t.args[0], bool) \
            and float(t.args[0]) == int(t.args[0]):
        return int(t.args[0])
    return None


class CovEngine(KindEngine):
    """KindEngine + sum / power transfer functions + the pairing count for reductions over the auxiliary axis."""

    AUX = "G"

    def __init__(self, *a, **kw):
        super().__init__(*a, **kw)
        self.reductions: List[Tuple[T, str, Optional[int]]] = []   # (term, how, count)

    # -- kinds ---------------------------------------------------------
    def _k(self, t: T) -> Kind:
        if t in self.seeds:
            return self.seeds[t]
        s = strip_wrappers(t)
        if s is not t:
            return self.k(s)
        if t.op == "binop" and t.args[0] == "**" and _int_const(t.args[2]) is not None:
            return self.k(t.args[1])
        if t.op == "call":
            fn = array_fn(t)
            f, pos, kws = call_parts(t)
            recv = None
            if fn is None and f.op == "attr" and f.args[1] == "sum":
                recv, fn = f.args[0], "sum"
                args = [recv] + list(pos)
            else:
                args = list(pos)
            if fn == "sum" and args:
                return self._sum(t, args[0], kws.get("axis", args[1] if len(args) > 1 else None))
            if fn in ("square",) and pos:
                return self.k(pos[0])
            if fn in _LINEAR_CALLS and len(pos) == 1 and not kws:
                return self.k(pos[0])
        r = super()._k(t)
        if t.op == "call" and array_fn(t) == "einsum":
            self._einsum_reduction(t)
        return r

    def _axes(self, ax: Optional[T], rank: int) -> Optional[List[int]]:
        if ax is None:
            return list(range(rank))
        a = strip_wrappers(ax)
        if a.op == "const" and a.args[0] is None:
            return list(range(rank))
        if a.op == "const" and isinstance(a.args[0], int):
            return [a.args[0] % rank] if -rank <= a.args[0] < rank else None
        if a.op in ("tuple", "list"):
            out = []
            for y in a.args:
                v = _int_const(y)
                if v is None or not -rank <= v < rank:
                    return None
                out.append(v % rank)
            return out
        return None

    def _sum(self, t: T, x: T, ax: Optional[T]) -> Kind:
        kx = self.k(x)
        if kx is None:
            return None
        axes = self._axes(ax, len(kx))
        if axes is None:
            return None
        for i in axes:
            if kx[i] == self.AUX:
                n = self.count(x, len(kx) - i)
                self.reductions.append((t, "sum", n))
                if n is not None:
                    self.checked_sites += 1
                    if n % 2 == 1:
                        self.bad(t, f"sum over the auxiliary-field axis of a summand in which that index occurs {n} time(s) "
                                    f"({show(strip_wrappers(x), maxdepth=2)[:60]}): not a contraction of two tensors carrying "
                                    f"it, the value changes under an orthogonal mixing of the Cholesky vectors")
        return tuple(k_ for i, k_ in enumerate(kx) if i not in axes)

    def _einsum_reduction(self, t: T):
        f, pos, kws = call_parts(t)
        if not pos or pos[0].op != "const" or not isinstance(pos[0].args[0], str):
            return
        spec = pos[0].args[0].replace(" ", "")
        if "->" not in spec:
            return
        ins, out = spec.split("->")
        subs = ins.split(",")
        ops = pos[1:]
        if len(subs) != len(ops):
            return
        ks = [self.k(o) for o in ops]
        letters = {}
        for s_, ko in zip(subs, ks):
            if ko is None or len(ko) != len(s_):
                return
            for ch, kd in zip(s_, ko):
                letters.setdefault(ch, kd)
        for ch, kd in letters.items():
            if kd != self.AUX or ch in out:
                continue
            n = 0
            for s_, o in zip(subs, ops):
                for j, c2 in enumerate(s_):
                    if c2 == ch:
                        m = self.count(o, len(s_) - j)
                        if m is None:
                            n = None
                            break
                        n += m
                if n is None:
                    break
            self.reductions.append((t, f"einsum '{spec}'", n))
            if n is not None:
                self.checked_sites += 1
                if n % 2 == 1:
                    self.bad(t, f"einsum '{spec}' sums the auxiliary-field index '{ch}', which occurs {n} time(s) in its "
                                f"operands: not a contraction of two tensors carrying it")

    # -- how many tensors carrying the auxiliary index meet at axis `pos` (counted from the right) ----------------
    def count(self, t: T, pos: int) -> Optional[int]:
        t = strip_wrappers(t)
        k = self.k(t)
        if k is None:
            return None
        if len(k) < pos:
            return 0                      # broadcast along that axis
        if k[len(k) - pos] != self.AUX:
            return None
        if t in self.seeds:
            return 1
        op = t.op
        if op == "binop":
            o, l, r = t.args
            if o == "*":
                a, b = self.count(l, pos), self.count(r, pos)
                if self.k(strip_wrappers(l)) is None and self._scalarish(l):
                    a = 0
                if self.k(strip_wrappers(r)) is None and self._scalarish(r):
                    b = 0
                return None if a is None or b is None else a + b
            if o == "/":
                a = self.count(l, pos)
                kr = self.k(strip_wrappers(r))
                if kr is not None and len(kr) >= pos:
                    return None           # divided by something that carries the axis
                return a
            if o in ("+", "-"):
                a, b = self.count(l, pos), self.count(r, pos)
                if a is None or b is None or a == 0 or b == 0:
                    return None
                # the sum over g distributes: one term with an odd count is enough to make the total non-covariant
                return a if a % 2 == 1 else b
            if o == "**":
                n = _int_const(r)
                a = self.count(l, pos)
                return None if n is None or a is None or n < 1 else n * a
            return None
        if op == "unop":
            return self.count(t.args[1], pos) if t.args[0] in ("-", "+", "USub", "UAdd") else None
        if op == "attr":
            base, nm = t.args
            if nm in ("real", "imag"):
                return self.count(base, pos)
            if nm == "T":
                return self._same_single_axis(k, base)
            return None
        if op == "call":
            fn = array_fn(t)
            f, cpos, kws = call_parts(t)
            if f.op == "attr" and f.args[1] in _LINEAR_METHODS:
                return self.count(f.args[0], pos)
            # pure re-indexing (reshape / transpose / swapaxes): the one auxiliary axis of the result is the one of the base
            src = None
            if f.op == "attr" and f.args[1] in ("reshape", "transpose", "swapaxes"):
                src = f.args[0]
            elif fn in ("reshape", "transpose", "swapaxes", "moveaxis") and cpos:
                src = cpos[0]
            if src is not None:
                return self._same_single_axis(k, src)
            if fn in _LINEAR_CALLS and len(cpos) == 1:
                return self.count(cpos[0], pos)
            if fn == "square" and cpos:
                a = self.count(cpos[0], pos)
                return None if a is None else 2 * a
            vm = match_vmap(t)
            if vm is not None and pos == len(k):
                fcl, in_axes, vargs = vm
                if fcl.op == "closure" and len(vargs) == 1:
                    src = strip_wrappers(vargs[0])
                    ks = self.k(src)
                    if ks is not None and ks[0] == self.AUX and self.count(src, len(ks)) == 1:
                        x = mk("vmap_elem", vargs[0], 0)
                        body = self.ev.open_closure(fcl, [x])
                        return 1 if self._linear(body, x) else None
                return None
            return None
        if op == "getitem":
            # an element / slice of a seed that keeps the auxiliary axis
            base = strip_wrappers(t.args[0])
            kb = self.k(base)
            if kb is not None and self.AUX in kb:
                return self.count(base, len(kb) - kb.index(self.AUX)) if kb.count(self.AUX) == 1 else None
            return None
        return None

    def _same_single_axis(self, k, base: T) -> Optional[int]:
        base = strip_wrappers(base)
        kb = self.k(base)
        if kb is None or k.count(self.AUX) != 1 or kb.count(self.AUX) != 1:
            return None
        return self.count(base, len(kb) - kb.index(self.AUX))

    def _scalarish(self, t: T) -> bool:
        t = strip_wrappers(t)
        if t.op == "const":
            return True
        if t.op == "attr" and t.args[1] == "dt":
            return True
        if t.op == "call" and array_fn(t) == "sqrt":
            return self._scalarish(call_parts(t)[1][0])
        if t.op == "unop":
            return self._scalarish(t.args[1])
        if t.op == "binop" and t.args[0] in ("*", "/", "+", "-"):
            return self._scalarish(t.args[1]) and self._scalarish(t.args[2])
        return False

    def _linear(self, body: T, x: T) -> bool:
        """body is a homogeneous linear function of x (x occurs in exactly one factor of every term)."""
        def dep(t):
            return any(y is x for y in subterms(t))

        def lin(t) -> bool:
            t = strip_wrappers(t)
            if t is x:
                return True
            if not dep(t):
                return False
            if t.op == "binop":
                o, l, r = t.args
                if o in ("*", "@"):
                    dl, dr = dep(l), dep(r)
                    return (dl != dr) and lin(l if dl else r)
                if o == "/":
                    return not dep(r) and lin(l)
                if o in ("+", "-"):
                    return lin(l) and lin(r)
                return False
            if t.op == "unop":
                return lin(t.args[1])
            if t.op == "attr":
                return t.args[1] in _LINEAR_ATTRS and lin(t.args[0])
            if t.op == "getitem":
                return not dep(t.args[1]) and lin(t.args[0])
            if t.op == "call":
                fn = array_fn(t)
                f, cpos, kws = call_parts(t)
                if f.op == "attr" and f.args[1] in _LINEAR_METHODS + ("reshape", "sum", "dot", "trace", "transpose",
                                                                      "ravel", "flatten"):
                    others = [a for a in cpos if dep(a)]
                    if f.args[1] == "dot":
                        d0 = dep(f.args[0])
                        return (d0 != bool(others)) and lin(f.args[0] if d0 else others[0])
                    return not others and lin(f.args[0])
                if fn in _LINEAR_CALLS + ("sum", "trace", "reshape", "transpose", "einsum", "dot", "matmul", "tensordot",
                                          "vdot", "ravel", "diagonal"):
                    ds = [a for a in cpos if dep(a)]
                    return len(ds) == 1 and lin(ds[0]) and not any(dep(v) for v in kws.values())
                return False
            return False
        return lin(body)
