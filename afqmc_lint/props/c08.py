"""C08 -- cached overlaps are coherent with the walkers whenever a step reads them."""

from __future__ import annotations

import ast
from typing import Dict, List, Set, Tuple

from ..model import AnalysisError, dotted
from ..rules import typestate as ts
from ..rules.bind import package_walk
from ..symex import show

ID = "C08"
EXPLANATION = (
    "Interprocedural typestate over the resolved, inlined call graph of every sampler entry point "
    "(propagate_phaseless, propagate_phaseless_ad, _ad_1, _ad_nosr, _ad_norot, _ad_nosr_norot, "
    "propagate_free) x every concrete propagator class. Each load of the cached overlap (and cached "
    "Green's functions) is judged symbolically on the def-use value graph: it must be the trial overlap "
    "of the walkers as they are at that point (COH), or of the walkers a propagation-only computation "
    "(no QR, no reconfiguration gather) started from (LAG, the old overlap of an importance ratio). "
    "lax.scan bodies are proved inductively (greatest fixed point over {overlap, greens, free-projection} "
    "invariants), so all block/step/SR histories the sampler and driver can generate are covered at once. "
    "TS-0: step functions are only invoked from the sampler's step scans, and the driver only hands "
    "prop_data to sampler entry points, each of which refreshes the cache before its first scan. "
    "The entry refresh evaluates the overlap with the same wave_data term the blocks propagate with (a "
    "refresh placed before the trial relaxation is coherent with another trial). "
)
NOT_DECIDED = (
    "floating-point equality with a step-by-step replay (follows from the invariant plus determinism); "
    "that trial.calc_overlap returns the true overlap (C01)."
)

ENTRY_PREFIX = "sampling.sampler."


def entry_points(ctx) -> List[str]:
    """Public sampler methods that take a propagator and a prop_data dict."""
    p = ctx.p
    ci = p.cls("sampling.sampler")
    out = []
    mod = p.modules["sampling"]
    for name, fi in ci.methods.items():
        if name.startswith("_"):
            continue
        has_prop = any(
            (c := p.annotation_class(mod, prm.annotation)) is not None
            and "propagation.propagator" in p.classes[c].mro for prm in fi.params)
        has_pd = any(getattr(prm.annotation, "id", None) == "dict" and prm.name.startswith("prop")
                     for prm in fi.params)
        if has_prop and has_pd:
            out.append(fi.qualname)
    if len(out) < 2:
        raise AnalysisError("sampler entry points not found")
    return sorted(out)


def uses_free(ctx, entry_q: str) -> bool:
    """Does this entry reach propagate_free (vs propagate)?"""
    fi = ctx.p.func(entry_q)
    names = {n.attr for n in ast.walk(fi.node) if isinstance(n, ast.Attribute)}
    seen, work = set(), [fi]
    ci = ctx.p.cls("sampling.sampler")
    while work:
        f = work.pop()
        if f.qualname in seen:
            continue
        seen.add(f.qualname)
        for n in ast.walk(f.node):
            if isinstance(n, ast.Attribute):
                if n.attr == "propagate_free":
                    return True
                if isinstance(n.value, ast.Name) and n.value.id == "self":
                    m_ = ctx.p.lookup_method("sampling.sampler", n.attr)      # own or inherited (mixin / base class)
                    if m_ is not None:
                        work.append(m_)
            elif isinstance(n, ast.Name) and isinstance(n.ctx, ast.Load):
                # a module-level function of the sampler's module called (or passed on) by name
                m_ = ctx.p.functions.get(f"{fi.module}.{n.id}")
                if m_ is not None and getattr(m_, "node", None) is not None:
                    work.append(m_)
    return False


def run(ctx):
    p = ctx.p
    rep = ts.rep_change_functions(p)
    ctx.rep.extra["rep_change_functions"] = sorted(q for q in rep if q.split(".")[0] in (
        "linalg_utils", "sr", "propagation"))
    props = [q for q in p.subclasses("propagation.propagator") if not p.abstract_methods(q)]
    if len(props) < 2:
        raise AnalysisError("concrete propagator classes not found")
    entries = entry_points(ctx)
    n_reads = 0
    n_runs = 0
    for eq in entries:
        fi = p.func(eq)
        free = uses_free(ctx, eq)
        for P in props:
            step = p.lookup_method(P, "propagate_free" if free else "propagate")
            if step is None:
                ctx.ob("TS-1", f"{eq} x {P}: step function exists", False, "no step function", fi)
                continue
            if step.is_refusal():
                ctx.rep.note(f"{eq} x {P}: explicit refusal ({step.qualname} raises NotImplementedError)")
                continue
            run_ = ts.TSRun(p, fi, P, rep)
            res = ts.analyse_run(run_)
            n_runs += 1
            # group reads by site
            sites: Dict[Tuple[str, int, str], List] = {}
            for e, key, ok, why in res.reads:
                sites.setdefault((e.frame.label, e.line, key), []).append((ok, why, e))
            for (label, line, key), lst in sorted(sites.items()):
                ok = all(x[0] for x in lst)
                why = ",".join(sorted({x[1] for x in lst}))
                e = lst[0][2]
                n_reads += 1
                # stable construct key: no line numbers; ordinal of the read within the function
                ordinal = sorted(l for (lab, l, k) in sites if lab == label and k == key).index(line)
                val = [x[2].data[2] for x in lst if not x[0]]
                msg = (f"state {why}" if ok else
                       f"cached {key} read while stale: the value {show(val[0], maxdepth=3)[:160]} is not "
                       f"the {key} of the walkers at this point (entry {eq}, propagator {P})")
                ctx.rep.ob("TS-3", f"{eq} x {P}: read #{ordinal} of ['{key}'] in {label}", ok, msg,
                           e.frame.mod.path, line)
            for line, kinds, label in res.invariants:
                held = [k for k, v in kinds.items() if v]
                ctx.rep.count("scan_invariants_" + ("+".join(held) or "none"))
            if not res.reads and not free:
                ctx.ob("TS-3", f"{eq} x {P}: step reads the cached overlap", False,
                       "no load of the cached overlap found on this path (anchor vanished)", fi)
    if n_reads == 0:
        raise AnalysisError("no cached-overlap reads found: anchors vanished")
    ctx.rep.count("entry_x_propagator_runs", n_runs)
    ctx.rep.count("read_sites_judged", n_reads)
    ts0(ctx, entries)
    # the refreshed overlap is an overlap with *a* trial: it is coherent only if that is the trial the steps divide by
    from ..rules import entries as ent
    for eq in entries:
        fi = p.func(eq)
        if not fi.name.startswith("propagate_phaseless"):
            continue
        sk = ent.skeleton(p, fi)
        if not sk.ok_shape:
            continue
        ctx.ob("TS-3", f"{eq}: the entry refresh evaluates the overlap with the wave_data the blocks propagate with",
               sk.wd_consistent, "; ".join(q for q in sk.problems if "wave_data" in q) or "one wave_data term reaches "
               "calc_overlap, the intermediates and the block function", fi)
    ctx.rep.trust("trial.calc_overlap(w) is the overlap of w (C01)",
                  "lax.scan semantics; trip counts named by sampler/propagator fields are >= 1")
    ctx.rep.assume("loop trip counts n_prop_steps, n_ene_blocks, n_sr_blocks, n_blocks, norb, "
                   "len(neighbors) >= 1")


def _private_sampler_kernel(p, label: str) -> bool:
    """A module-level function of the sampler's module that nothing outside that module names: it can only be entered
    from the sampler's own code, i.e. on the paths the typestate runs (TS-3) follow from the entry points."""
    parts = label.split(".")
    if len(parts) < 2 or parts[0] != "sampling" or parts[1] not in p.modules["sampling"].functions:
        return False
    nm = parts[1]
    for mname, mod in p.modules.items():
        if mname == "sampling":
            continue
        for nd in ast.walk(mod.tree):
            if (isinstance(nd, ast.Name) and nd.id == nm) or (isinstance(nd, ast.Attribute) and nd.attr == nm) or \
                    (isinstance(nd, ast.alias) and nd.name == nm):
                return False
    return True


def ts0(ctx, entries: List[str]):
    """Who may call a step function / who hands prop_data to what."""
    p = ctx.p
    w = package_walk(p)
    step_names = {"propagate", "propagate_free", "propagate_one_body", "propagate_1"}
    # the typestate runs (TS-3) start at every sampler entry point and follow whatever it calls, closures included: a
    # step function entered anywhere inside the sampler class is on an analysed path.  Elsewhere (driver, user-facing
    # helpers) nothing establishes the cache invariant the step relies on.
    allowed_prefix = tuple(q_ + "." for q_ in p.classes["sampling.sampler"].mro if q_ in p.classes) + ("propagation.",)
    for e, fi in w.sites:
        f = e.data.args[0]
        if f.op == "attr" and f.args[1] in step_names:
            cands = w.ev.resolve_callees(f, e.frame)
            if not cands:
                continue
            if not any("propagation.propagator" in (p.classes[c.cls].mro if c.cls else [])
                       for c, _ in cands):
                continue
            label = fi.qualname if fi else e.frame.label
            ok = label.startswith(allowed_prefix) or _private_sampler_kernel(p, label)
            ctx.rep.ob("TS-0", f"{label}: calls step function .{f.args[1]}", ok,
                       "step functions may only be entered from the sampler's step scans (their "
                       "entry requires a coherent cache)" if not ok else "inside a step scan",
                       e.frame.mod.path, e.line)
    # driver: prop_data only flows into sampler entries, QR, global SR, init
    entry_short = {q.split(".")[-1] for q in entries}
    for fname in ("driver.afqmc", "driver.fp_afqmc"):
        fi = p.func(fname)
        for nd in ast.walk(fi.node):
            if isinstance(nd, ast.Call) and isinstance(nd.func, ast.Attribute):
                recv = nd.func.value
                if isinstance(recv, ast.Name) and recv.id in ("sampler", "sampler_eq"):
                    ok = nd.func.attr in entry_short
                    ctx.ob("TS-0", f"{fname}: sampler.{nd.func.attr} is a refreshing entry point", ok,
                           "analysed entry point" if ok else
                           f"driver calls sampler.{nd.func.attr}, which is not an analysed entry point",
                           fi, nd.lineno)

TECHNIQUE = ("static analysis: interprocedural typestate by symbolic coherence judgement over the inlined "
             "def-use value graph, inductive scan invariants (greatest fixed point)")
