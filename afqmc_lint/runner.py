"""Runs the rules of one property on a Program and drives the self-test."""

from __future__ import annotations

import importlib
import json
import os
import sys
import time
import traceback
from typing import Dict, List, Optional, Tuple

from .model import AnalysisError, FuncInfo, Program
from .report import Report, VERIF_DIR, finish
from .symex import Evaluator

PROPS = [f"C{i:02d}" for i in range(1, 21)]
MUTANT_DIR = os.path.join(VERIF_DIR, "afqmc_lint", "mutants")

DYNAMIC_NAMES = {"exec", "eval", "globals", "locals", "setattr", "__import__", "vars"}


class Ctx:
    def __init__(self, program: Program, rep: Report, tier: str):
        self.p = program
        self.rep = rep
        self.tier = tier

    def evaluator(self) -> Evaluator:
        return Evaluator(self.p)

    def file_of(self, fi_or_mod) -> str:
        if isinstance(fi_or_mod, FuncInfo):
            return self.p.modules[fi_or_mod.module].path
        if isinstance(fi_or_mod, str):
            return self.p.modules[fi_or_mod].path
        return getattr(fi_or_mod, "path", "")

    def ob(self, rule, construct, ok, message="", fi=None, line=0, nontrivial=True, witness=None,
           mod=None, alias_exact=False):
        file = ""
        if fi is not None:
            file = self.file_of(fi)
            line = line or fi.lineno
        elif mod is not None:
            file = self.file_of(mod)
        if not ok and fi is not None and not alias_exact:
            try:
                al = fi.alias_stores()
            except Exception:
                al = []
            if al:
                # the function mutates an object through a second reference to it; the value graph does not carry
                # such a store to the other reference, so what looks like a violation here may be that loss of
                # precision: no claim either way (a violation needs a positive witness)
                ln_, nm_, src_ = al[0]
                self.rep.note(f"{construct}: not decided -- {fi.qualname} stores through '{nm_}' (line {ln_}), a second "
                              f"reference to {src_}; aliasing stores are not modelled [{rule}: {message[:120]}]")
                self.rep.count("undecided_alias")
                return True
        return self.rep.ob(rule, construct, ok, message, file, line, nontrivial, witness)


def dynamic_feature_audit(p: Program, modules: Optional[List[str]] = None):
    """Name resolution is only valid if the analysed modules do not rebind things
    dynamically.  Any such construct is an analysis error, not a verdict."""
    import ast

    allowed = {
        # (module, construct) : reason
        ("wavefunctions", "hasattr"): "read-only",
    }
    for name, mod in p.modules.items():
        if modules is not None and name not in modules:
            continue
        for node in ast.walk(mod.tree):
            if isinstance(node, ast.Call) and isinstance(node.func, ast.Name):
                if node.func.id in DYNAMIC_NAMES:
                    raise AnalysisError(
                        f"{mod.path}:{node.lineno} dynamic feature '{node.func.id}' defeats "
                        f"static name resolution"
                    )
            if isinstance(node, ast.ImportFrom) and any(a.name == "*" for a in node.names):
                raise AnalysisError(f"{mod.path}:{node.lineno} star import")
            if isinstance(node, ast.Assign):
                # monkey patching: <module-or-class>.<attr> = ... at module level handled below
                pass
        for st in mod.tree.body:
            if isinstance(st, ast.Assign):
                for t in st.targets:
                    if isinstance(t, ast.Attribute):
                        from .model import dotted

                        dn = dotted(t) or ""
                        head = dn.split(".")[0]
                        r = p.resolve_name(mod, head)
                        if r and r[0] in ("class", "module"):
                            raise AnalysisError(
                                f"{mod.path}:{st.lineno} monkey-patching of {dn}"
                            )


def run_deep(fn, *args):
    """Run fn in a thread with a large stack: the value graphs of the nested scans are deep and
    every rule is a recursive walk."""
    import threading

    box = {}

    def target():
        try:
            box["r"] = fn(*args)
        except BaseException as e:  # noqa
            box["e"] = e

    old = threading.stack_size()
    threading.stack_size(512 * 1024 * 1024)
    try:
        sys.setrecursionlimit(200000)
        t = threading.Thread(target=target)
        t.start()
        t.join()
    finally:
        threading.stack_size(old)
    if "e" in box:
        raise box["e"]
    return box.get("r")


def analyse(prop_id: str, repo: str, overlay: Optional[Dict[str, str]] = None,
            tier: str = "quick") -> Report:
    if sys.getrecursionlimit() < 100000:
        return run_deep(_analyse, prop_id, repo, overlay, tier)
    return _analyse(prop_id, repo, overlay, tier)


def _analyse(prop_id: str, repo: str, overlay: Optional[Dict[str, str]] = None,
             tier: str = "quick") -> Report:
    rep = Report(prop_id, tier)
    program = Program(repo, overlay)
    dynamic_feature_audit(program, ["sampling", "propagation", "wavefunctions", "sr",
                                    "hamiltonian", "linalg_utils", "lattices", "stat_utils"])
    modname = f"afqmc_lint.props.{prop_id.lower()}"
    m = importlib.import_module(modname)
    ctx = Ctx(program, rep, tier)
    rep.explanation = getattr(m, "EXPLANATION", "")
    rep.not_decided = getattr(m, "NOT_DECIDED", "")
    rep.trust("CPython ast parser", "afqmc_lint program model (MRO, dataclass, jit/vmap/scan "
              "binding rules) as described in DESIGN.md 2.1")
    m.run(ctx)
    from .rules import pitfalls
    pitfalls.run(ctx, prop_id)
    st = program.stats()
    rep.extra["program"] = st
    return rep


# ------------------------------------------------------------------ self-test


def load_mutants(prop_id: str) -> List[dict]:
    path = os.path.join(MUTANT_DIR, f"{prop_id}.json")
    if not os.path.exists(path):
        return []
    with open(path) as fh:
        return json.load(fh)


def apply_mutant(repo: str, m: dict) -> Optional[Dict[str, str]]:
    """Return an overlay {relpath: source} or None when the locator does not apply."""
    overlay: Dict[str, str] = {}
    edits = m.get("edits") or [m]
    for e in edits:
        rel = e["file"]
        if rel in overlay:
            src = overlay[rel]
        else:
            path = os.path.join(repo, rel)
            if not os.path.exists(path):
                return None
            with open(path) as fh:
                src = fh.read()
        find, repl = e["find"], e["replace"]
        occ = e.get("occurrence", 1)
        scope = e.get("within")  # restrict to the text after this marker (e.g. 'def name(')
        start = 0
        if scope:
            s_occ = e.get("within_occurrence", 1)
            pos = -1
            for _ in range(s_occ):
                pos = src.find(scope, pos + 1)
                if pos < 0:
                    return None
            start = pos
        idx = start - 1
        for _ in range(occ):
            idx = src.find(find, idx + 1)
            if idx < 0:
                return None
        if e.get("all"):
            src = src[:start] + src[start:].replace(find, repl)
        else:
            src = src[:idx] + repl + src[idx + len(find):]
        overlay[rel] = src
    for rel, src in overlay.items():
        try:
            compile(src, rel, "exec")
        except SyntaxError:
            return None
    return overlay


def _run_mutant(args) -> Tuple[str, str, List[str], str]:
    prop_id, repo, m, base_keys = args
    try:
        overlay = apply_mutant(repo, m)
        if overlay is None:
            return (m["id"], "inapplicable", [], "")
        rep = analyse(prop_id, repo, overlay, "quick")
        keys = [o.key() for o in rep.violations]
        new = [k for k in keys if k not in base_keys]
        exp = m.get("expect")
        if m.get("expect_silent"):
            # a behaviour-preserving edit: the check must stay silent
            return (m["id"], "silent-ok" if not new else "false-alarm", new[:5], "")
        if new and (exp is None or any(exp in k for k in new)):
            return (m["id"], "caught", new[:5], "")
        if new:
            return (m["id"], "caught-other", new[:5], f"expected rule containing '{exp}'")
        return (m["id"], "missed", keys[:5], "")
    except AnalysisError as e:
        return (m["id"], "analysis-error", [], str(e))
    except Exception as e:  # noqa
        return (m["id"], "crash", [], traceback.format_exc(limit=6))


def selftest(prop_id: str, repo: str, base: Report, jobs: int = 16) -> dict:
    mutants = load_mutants(prop_id)
    base_keys = [o.key() for o in base.violations]
    work = [(prop_id, repo, m, base_keys) for m in mutants]
    results = []
    if work:
        try:
            import multiprocessing as mp

            with mp.get_context("fork").Pool(min(jobs, len(work))) as pool:
                results = pool.map(_run_mutant, work, chunksize=1)
        except Exception:
            results = [_run_mutant(w) for w in work]
    # pristine overlay must be silent beyond the base violations
    prist = analyse(prop_id, repo, {}, "quick")
    prist_new = [o.key() for o in prist.violations if o.key() not in base_keys]
    out = {
        "mutants": len(mutants),
        "applicable": sum(1 for r in results if r[1] != "inapplicable"),
        "inapplicable": sum(1 for r in results if r[1] == "inapplicable"),
        "caught": sum(1 for r in results if r[1] in ("caught", "caught-other", "silent-ok")),
        "benign_variants_silent": sum(1 for r in results if r[1] == "silent-ok"),
        "missed": [r[0] for r in results if r[1] in ("missed", "false-alarm")],
        "errors": [(r[0], r[3][:300]) for r in results if r[1] in ("analysis-error", "crash")],
        "pristine_silent": not prist_new,
        "results": [
            {"id": r[0], "verdict": r[1], "reported": r[2]} for r in results
        ],
    }
    return out
