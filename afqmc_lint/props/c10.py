"""C10 -- CPMC step: pairing of ratio / Green's update / row scaling, fast vs slow agreement."""

from __future__ import annotations

from typing import Dict, List, Optional, Tuple

from ..model import AnalysisError
from ..rules import guard as G
from ..rules import typestate as ts
from ..rules.gvn import GVN, f_key
from ..rules.match import (m_binop, m_cmp, m_method, m_where, peel_guards, product_factors, strip_real,
                           strip_reshape, sum_terms)
from ..symex import (T, Evaluator, array_fn, call_parts, const, func_name, getitem, is_const, match_scan, mk, show, strip_wrappers,
                     subterms, sym)

ID = "C10"
EXPLANATION = (
    "PAIR-2: each update block of the CPMC propagators is reduced, from the def-use value graph of the scan "
    "body, to a descriptor (spin-orbital pairs, which Hubbard-Stratonovich constant table and entry scales "
    "which row, which random-number column decides, which field's probability the comparison uses, which "
    "ratios enter the weight). Obligations for the fast propagators: the index pairs handed to the two "
    "overlap-ratio calls and to the Green's-function update are one term, the rows scaled are exactly "
    "those pairs with constants[:, 0] / constants[:, 1], the constants are where(mask, h[0], h[1]) for the "
    "same mask that selects the ratios, update constants are constants - 1, the acceptance probability is "
    "the field-0 ratio over the sum, and the weight is multiplied by that sum; the four neighbour blocks "
    "cover the spin pairs (up,up), (up,dn), (dn,up), (dn,dn) once each with four distinct random columns. "
    "SIB-1: the fast and the slow reference propagators have identical prologues (same def-use terms for "
    "walkers, weights, overlaps entering the first scan), identical block descriptor sequences per scan, "
    "and identical epilogues modulo the scan result. TS-1..3 (cache coherence of overlaps and Green's "
    "functions through all blocks) is re-run for the four CPMC propagator classes. "
    "PAIR-2 on the Hubbard-Stratonovich tables built by init_prop_data: prefactor * [[e^g, e^-g], "
    "[e^-g, e^g]], prefactor exp(-dt U/2) and gamma = arccosh(exp(dt U/2)) read the same coupling (u on "
    "site, u_1 for neighbours); SIB-1: the tables are the same function of (dt, U) in the fast and the "
    "slow classes. "
    "DET-1: the variate compared with the field-0 probability is the normal CDF of the Gaussian field, "
    "(erf(g / sqrt 2) + 1) / 2 or ndtr(g); the scale of the argument is checked numerically from the "
    "literal. "
    " The Gaussian-field argument of each propagate method is identified by its position in the signature (its name differs between the classes). SIB-1: the fast propagator and its brute-force reference resolve _build_propagation_intermediates (exp_h1, mean-field shifts) to one and the same function. A scan body whose update blocks are written in a form the peeling does not recognise is noted and not judged; the recognised blocks still are. "
    " SIMUL-1: in update_greens_function of every class that defines one, a rank-one correction never combines entries read from the Green's function the method received with a column / entry read out of the partially updated array (for index pairs in the same block the first correction has already changed it). SIB-3: uhf_cpmc and ghf_cpmc are expanded into polynomials over role atoms (update constants, 1/ratio, entries g(a,b), columns col(a), shifted rows sg(a), a,b in {i,j}); every read addresses the spin block / spin-orbital of its own index pair, the GHF polynomial has no spin gate, every UHF monomial with an off-diagonal entry carries (spin_i == spin_j), and with the gate set to 1 the two polynomials coincide, for calc_overlap_ratio and for the corrections of update_greens_function. "
    " FWD-2 (pitfall rule, contradiction between call sites): a helper parameter that mirrors a field of the calling objects (dt) is not left at the helper's default by one class while another passes self.dt. "
)
NOT_DECIDED = (
    "exact unbiasedness over the 2^n field configurations; the Wick ratio and the Sherman-Morrison update "
    "formulas themselves (decided: that uhf_cpmc and ghf_cpmc agree on them, that every correction is built from "
    "one state of the Green's function, that reads address the block of their own index pair -- a formula wrong "
    "in both siblings alike is not seen); whether exp_h1 is the bare kinetic propagator."
)
TECHNIQUE = "static analysis: block-descriptor extraction from scan bodies, sibling comparison fast vs slow, typestate"

P = "propagation."


class Block:
    def __init__(self):
        self.pairs: List[Tuple[int, str, int]] = []   # (spin, row term rendering, constant column)
        self.hs: str = "?"
        self.rns: str = "?"
        self.prob_field0 = False
        self.norm_ok = False
        self.extra_ok = True
        self.problems: List[str] = []

    def key(self):
        return (tuple(sorted(self.pairs)), self.hs, self.rns)

    def __repr__(self):
        return f"pairs={sorted(self.pairs)} hs={self.hs} rns={self.rns}"


def _scanned_rows(t: T, memo=None) -> T:
    """the scanned element written one way:  (xs_a, xs_b)-element [k] is the element of xs_k, and table[i] with i the
    element of arange(table.shape[0]) is the element of table"""
    if memo is None:
        memo = {}
    if not isinstance(t, T) or not t.args:
        return t
    if t.uid in memo:
        return memo[t.uid]
    args = tuple(_scanned_rows(a, memo) if isinstance(a, T) else a for a in t.args)
    r = t if all(x is y for x, y in zip(args, t.args)) else (getitem(*args) if t.op == "getitem" else mk(t.op, *args))
    if r.op == "getitem":
        b, i = r.args
        if b.op == "scan_x" and b.args[0].op in ("tuple", "list") and i.op == "const" and type(i.args[0]) is int and \
                0 <= i.args[0] < len(b.args[0].args):
            r = mk("scan_x", b.args[0].args[i.args[0]], *b.args[1:])
        elif i.op == "scan_x" and array_fn(i.args[0]) == "arange" and len(call_parts(i.args[0])[1]) == 1 and \
                call_parts(i.args[0])[1][0] is getitem(mk("attr", b, "shape"), const(0)):
            r = mk("scan_x", b, *i.args[1:])
    memo[t.uid] = r
    return r


def _trip_count(xs: T) -> T:
    """number of steps of a scan over xs: n for arange(n), the leading extent otherwise; of the first member for a tuple"""
    xs = strip_wrappers(xs)
    if xs.op in ("tuple", "list") and xs.args:
        return _trip_count(xs.args[0])
    if array_fn(xs) == "arange" and len(call_parts(xs)[1]) == 1 and not call_parts(xs)[2]:
        return strip_wrappers(call_parts(xs)[1][0])
    return getitem(mk("attr", xs, "shape"), const(0))


def _row_canon(t: T) -> T:
    """the site a block scales, written one way: table[x, k] (x the scanned scalar, k a literal column) is table[x][k]"""
    t = strip_wrappers(t)
    if t.op == "getitem" and t.args[1].op == "tuple" and len(t.args[1].args) == 2 and \
            t.args[1].args[1].op == "const" and isinstance(t.args[1].args[1].args[0], int) and t.args[1].args[0].op != "slice":
        t = getitem(getitem(t.args[0], t.args[1].args[0]), t.args[1].args[1])
    return _scanned_rows(t)


def _hs_name(t: T) -> str:
    """prop_data['hs_constant_nn'][k] / [k, c] -> 'hs_constant_nn'"""
    for x in subterms(t):
        if x.op == "getitem" and x.args[1].op == "const" and isinstance(x.args[1].args[0], str) and \
                x.args[1].args[0].startswith("hs_constant"):
            return x.args[1].args[0]
    return "?"


def _rns_key(t: T) -> str:
    """uniform_rns[:, x] / uniform_rns_1[:, k, x] -> 'source#k'"""
    t = strip_wrappers(t)
    if t.op == "getitem" and t.args[1].op == "tuple":
        idx = t.args[1].args
        src = show(t.args[0], maxdepth=2)[:40]
        col = [show(a) for a in idx[1:-1]]
        return f"{t.args[0].uid}#{','.join(col)}"
    return show(t, maxdepth=2)[:40]


def _mask_parts(mask: T):
    """(rns term, probability term) of  rns < p  (possibly reshaped)"""
    cm = m_cmp(strip_reshape(mask))
    if cm is None or cm[0] != "<":
        return None
    return cm[1], cm[2]


def _prob_is_field0(prob: T, r0_core: T, r1_core: T) -> Tuple[bool, bool]:
    """prob == a0 / (a0 + a1) with a_k built from ratio k; returns (numerator from field 0, sum of both)."""
    d = m_binop(strip_wrappers(prob), "/")
    if d is None:
        return False, False
    num, den = strip_wrappers(d[0]), strip_wrappers(d[1])
    has0 = any(x is r0_core for x in subterms(num))
    has1 = any(x is r1_core for x in subterms(num))
    terms = [strip_wrappers(x) for _, x in sum_terms(den)]
    both = len(terms) == 2 and any(x is num for x in terms) and any(
        any(y is r1_core for y in subterms(x)) for x in terms)
    return has0 and not has1, both


def fast_blocks(ev: Evaluator, body_carry: T, C: T) -> List[Block]:
    """Peel the overlap chain of a fast scan body from the outside in."""
    j = ts.Judge.__new__(ts.Judge)
    blocks: List[Block] = []
    D = strip_wrappers(getitem(body_carry, const("overlaps")))
    W = getitem(body_carry, const("walkers"))
    Wt = getitem(body_carry, const("weights"))
    g_final = strip_wrappers(getitem(body_carry, const("greens")))
    guard = 0
    while D is not getitem(C, const("overlaps")) and guard < 12:
        guard += 1
        mm = m_binop(D, "*")
        if mm is None:
            # the chain of  overlaps = ratios * overlaps  updates must end at the overlaps carried into the body
            b = Block()
            b.problems.append("the incremental overlap update does not start from the carried overlaps: "
                              + show(D, maxdepth=3)[:80])
            blocks.append(b)
            break
        b = Block()
        done = False
        for ratios, dprev in ((mm[0], mm[1]), (mm[1], mm[0])):
            w = m_where(ratios)
            if w is None:
                continue
            r = ts.Judge._peel_fast_block(j, ratios, W)
            if r is None:
                b.problems.append("ratio / row-scaling / constants pairing broken")
                return blocks + [b]
            w_prev, g_prev = r
            mask, r0, r1 = w
            g0, core0 = peel_guards(r0)
            g1, core1 = peel_guards(r1)
            c0 = strip_real(core0)
            c1 = strip_real(core1)
            _, pos0, _ = call_parts(c0)
            idx = strip_wrappers(pos0[1])
            pairs = ts._index_pairs(idx)
            for col, (spin, row) in enumerate(pairs):
                b.pairs.append((spin.args[0], show(_row_canon(row), maxdepth=4), col))
            b.hs = _hs_name(pos0[2])
            mp = _mask_parts(mask)
            if mp is None:
                b.problems.append("selection mask is not `rns < probability`")
            else:
                b.rns = _rns_key(mp[0])
                b.prob_field0, both = _prob_is_field0(mp[1], strip_wrappers(r0), strip_wrappers(r1))
                if not both:
                    b.problems.append("probability is not a0 / (a0 + a1) of this block's two ratios")
            # Green's update of this block
            gk = g_final
            okg = gk.op == "call" and gk.args[0].op == "attr" and gk.args[0].args[1] == "update_greens_function_vmap"
            if okg:
                _, gp, _ = call_parts(gk)
                okg = strip_wrappers(gp[0]) is g_prev and gp[1] is ratios and strip_wrappers(gp[2]) is idx
                g_final = g_prev
            if not okg:
                b.problems.append("Green's-function update does not use this block's ratios / indices / previous G")
            # weight factor of this block: weights = weights_prev * (a0 + a1)
            wm = m_binop(strip_wrappers(Wt), "*")
            if wm is not None and mp is not None:
                dden = m_binop(strip_wrappers(mp[1]), "/")
                for a_, b_ in ((wm[0], wm[1]), (wm[1], wm[0])):
                    if dden is not None and strip_wrappers(b_) is strip_wrappers(dden[1]):
                        b.norm_ok = True
                        Wt = a_
            D, W = strip_wrappers(dprev), w_prev
            blocks.append(b)
            done = True
            break
        if not done:
            b.problems.append("overlap update is not where(mask, ratio_0, ratio_1) * previous overlaps")
            blocks.append(b)
            break
    blocks.reverse()
    return blocks


def slow_blocks(ev: Evaluator, body_carry: T, C: T) -> List[Block]:
    blocks: List[Block] = []
    D = strip_wrappers(getitem(body_carry, const("overlaps")))
    W = getitem(body_carry, const("walkers"))
    Wt = getitem(body_carry, const("weights"))
    guard = 0
    while D is not getitem(C, const("overlaps")) and guard < 12:
        guard += 1
        w = m_where(D)
        if w is None:
            raise AnalysisError("slow CPMC body: overlap update is not where(mask, ov0, ov1)")
        mask, ov0, ov1 = w
        b = Block()
        comps_prev: List[Optional[T]] = [None, None]
        per_field: List[List[Tuple[int, str, int]]] = []
        hs_names = set()
        for K, ov in enumerate((ov0, ov1)):
            ov = strip_wrappers(ov)
            if not (ov.op == "call" and ov.args[0].op == "attr" and ov.args[0].args[1] == "calc_overlap"):
                raise AnalysisError("slow CPMC body: candidate overlap is not calc_overlap(...)")
            wl = strip_wrappers(call_parts(ov)[1][0])
            layers = []
            for c in (0, 1):
                comp = strip_wrappers(getitem(wl, const(c)))
                while True:
                    m = m_method(comp, "mul")
                    if m is None:
                        break
                    tgt, args = m
                    if not (tgt.op == "getitem" and tgt.args[0].op == "attr" and tgt.args[0].args[1] == "at"):
                        break
                    sl = tgt.args[1]
                    row = sl.args[1] if sl.op == "tuple" and len(sl.args) == 3 else sl
                    cst = strip_wrappers(args[0])
                    hs_names.add(_hs_name(cst))
                    fld, col = None, None
                    # constants[field, column], also written constants[field][column]
                    ix_ = []
                    c_ = cst
                    while c_.op == "getitem" and not (c_.args[1].op == "const" and isinstance(c_.args[1].args[0], str)):
                        ix_ = (list(c_.args[1].args) if c_.args[1].op == "tuple" else [c_.args[1]]) + ix_
                        c_ = strip_wrappers(c_.args[0])
                    while ix_ and ix_[0].op == "const" and isinstance(ix_[0].args[0], str):
                        ix_ = ix_[1:]              # the dictionary key(s) the table is read from
                    ix_ = ix_[-2:]
                    if len(ix_) == 2:
                        fld = ix_[0].args[0] if ix_[0].op == "const" else None
                        col = ix_[1].args[0] if ix_[1].op == "const" else None
                    if fld != K:
                        b.problems.append(f"candidate walkers of field {K} are scaled with constants of field {fld}")
                    layers.append((c, show(_row_canon(row), maxdepth=4), col))
                    comp = strip_wrappers(tgt.args[0].args[0])
                if comps_prev[c] is None:
                    comps_prev[c] = comp
                elif comps_prev[c] is not comp:
                    b.problems.append("the two candidate fields start from different walkers")
            per_field.append(sorted(layers))
        if per_field[0] != per_field[1]:
            b.problems.append(f"fields scale different rows: {per_field}")
        b.pairs = per_field[0]
        b.hs = ",".join(sorted(hs_names)) if len(hs_names) != 1 else next(iter(hs_names))
        mp = _mask_parts(mask)
        w_prev = mk("list", comps_prev[0], comps_prev[1])
        if mp is None:
            b.problems.append("selection mask is not `rns < probability`")
        else:
            b.rns = _rns_key(mp[0])
            # probability = ratio_0 / (ratio_0 + ratio_1), ratio_k = guard((ov_k / D_prev).real / 2)
            d = m_binop(strip_wrappers(mp[1]), "/")
            if d is not None:
                num = strip_wrappers(d[0])
                b.prob_field0 = any(x is strip_wrappers(ov0) for x in subterms(num)) and not any(
                    x is strip_wrappers(ov1) for x in subterms(num))
                terms = [strip_wrappers(x) for _, x in sum_terms(d[1])]
                if not (len(terms) == 2 and any(x is num for x in terms)):
                    b.problems.append("probability is not r0 / (r0 + r1)")
                wm = m_binop(strip_wrappers(Wt), "*")
                if wm is not None:
                    for a_, b_ in ((wm[0], wm[1]), (wm[1], wm[0])):
                        if strip_wrappers(b_) is strip_wrappers(d[1]):
                            b.norm_ok = True
                            Wt = a_
            # selected walkers: an untouched component passes through, a touched one is
            # where(mask3, cand0, cand1) on the same comparison as the overlaps
            for c in (0, 1):
                comp = strip_wrappers(getitem(W, const(c)))
                if comp is comps_prev[c]:
                    if any(sp == c for sp, _, _ in per_field[0]):
                        b.problems.append(f"the candidates scale walker component {c} but the selected walkers keep the old one")
                    continue
                wc = m_where(comp)
                cands = [strip_wrappers(getitem(strip_wrappers(call_parts(strip_wrappers(o))[1][0]), const(c)))
                         for o in (ov0, ov1)]
                if wc is None or strip_wrappers(wc[1]) is not cands[0] or strip_wrappers(wc[2]) is not cands[1]:
                    b.problems.append(f"walker component {c} is not where(mask, field-0 candidate, field-1 candidate)")
                elif strip_reshape(wc[0]) is not strip_reshape(mask):
                    b.problems.append(f"walker component {c} is selected with a different mask than the overlaps")
        # previous overlap: the denominator of the ratios
        dprev = None
        for x in subterms(strip_wrappers(mask)):
            if x.op == "binop" and x.args[0] == "/" and strip_wrappers(x.args[1]) is strip_wrappers(ov0):
                dprev = strip_wrappers(x.args[2])
        if dprev is None:
            raise AnalysisError("slow CPMC body: ratio denominator not found")
        D, W = dprev, w_prev
        blocks.append(b)
    blocks.reverse()
    return blocks



def _ham_keys(t: T) -> List[str]:
    return sorted({x.args[1].args[0] for x in subterms(t)
                   if x.op == "getitem" and x.args[0].op == "sym" and x.args[0].args[0] == "ham_data"
                   and x.args[1].op == "const" and isinstance(x.args[1].args[0], str)})


def hs_table(t: T):
    """c * array([[exp(a), exp(b)], [exp(c), exp(d)]]) -> (prefactor, gamma, sign pattern) or a problem string."""
    fs = product_factors(t)
    arr = [f for f in fs if f.op in ("list", "tuple")]
    if len(arr) != 1 or len(fs) != 2:
        return "not prefactor * array([[..], [..]])"
    pre = [f for f in fs if f is not arr[0]][0]
    rows = arr[0]
    if rows.op not in ("list", "tuple") or len(rows.args) != 2 or any(
            r.op not in ("list", "tuple") or len(r.args) != 2 for r in rows.args):
        return "table is not 2 x 2"
    gam, signs = None, []
    for r in rows.args:
        for e in r.args:
            e = strip_wrappers(e)
            if not (e.op == "call" and func_name(e) in ("jax.numpy.exp", "numpy.exp")):
                return "table entry is not exp(+-gamma)"
            a = strip_wrappers(call_parts(e)[1][0])
            sg = 1
            if a.op == "unop" and a.args[0] == "-":
                sg, a = -1, strip_wrappers(a.args[1])
            if gam is None:
                gam = a
            elif gam is not a:
                return "table entries use different gammas"
            signs.append(sg)
    return pre, gam, signs


def check_hs_tables(ctx, p):
    """PAIR-2 on the Hubbard-Stratonovich constant tables + SIB-1 between the classes that build them."""
    numbered: Dict[str, List[Tuple[str, object]]] = {}
    shared = None
    for cls in ("propagator_cpmc", "propagator_cpmc_nn", "propagator_cpmc_nn_slow"):
        f = p.lookup_method(P + cls, "init_prop_data")
        run_ = G.StepRun(p, f, P + cls)
        res = run_.result
        g = GVN(run_.ev, {})
        if shared is None:
            shared = g
        else:
            g.atoms, g.atom_keys = shared.atoms, shared.atom_keys
        names = sorted({e.data[1][0].args[0] for e in run_.events if e.kind == "store" and e.data[1]
                        and e.data[1][0].op == "const" and isinstance(e.data[1][0].args[0], str)
                        and e.data[1][0].args[0].startswith("hs_constant")})
        ctx.ob("PAIR-2", f"{cls}.init_prop_data builds its Hubbard-Stratonovich constant tables",
               bool(names), f"{names}", f)
        for name in names:
            t = strip_wrappers(getitem(res, const(name)))
            r = hs_table(t)
            tag = f"{cls}.init_prop_data: table '{name}'"
            if isinstance(r, str):
                ctx.ob("PAIR-2", f"{tag} is prefactor * [[e^g, e^-g], [e^-g, e^g]]", False, r, f)
                continue
            pre, gam, signs = r
            ctx.ob("PAIR-2", f"{tag} is prefactor * [[e^g, e^-g], [e^-g, e^g]]", signs == [1, -1, -1, 1],
                   f"exponent signs {signs}", f)
            kp, kg = _ham_keys(pre), _ham_keys(gam)
            ctx.ob("PAIR-2", f"{tag}: prefactor exp(-dt U/2) and gamma = arccosh(exp(dt U/2)) read the same coupling U",
                   len(kp) == 1 and kp == kg, f"prefactor reads {kp}, gamma reads {kg}", f)
            # cosh(gamma) = exp(dt U / 2) is what makes the two fields sum to exp(-dt U n_up n_dn): gamma must be
            # arccosh(exp(.)) on every branch (an approximate small-argument form breaks the identity at O((dt U)^2))
            def exact_gamma(t_):
                t_ = strip_wrappers(t_)
                if t_.op == "call" and (array_fn(t_) or "").split(".")[-1] == "arccosh" and call_parts(t_)[1]:
                    in_ = strip_wrappers(call_parts(t_)[1][0])
                    return in_.op == "call" and (array_fn(in_) or "").split(".")[-1] == "exp"
                return False
            gs = strip_wrappers(gam)
            arms = None
            w_ = m_where(gs)
            if w_ is not None:
                arms = [w_[1], w_[2]]
            elif gs.op in ("phi", "ifexp"):
                arms = [gs.args[1], gs.args[2]]
            if arms is not None:
                ctx.ob("PAIR-2", f"{tag}: gamma is arccosh(exp(dt U / 2)) on every branch", all(exact_gamma(a_) for a_ in arms),
                       f"branches: {[show(a_, maxdepth=2)[:40] for a_ in arms]}", f)
            elif exact_gamma(gs):
                ctx.ob("PAIR-2", f"{tag}: gamma is arccosh(exp(dt U / 2)) on every branch", True, "arccosh(exp(.))", f)
            else:
                ctx.rep.note(f"{tag}: gamma is not written as arccosh(exp(.)); its value is not decided")
            want = "u_1" if name.endswith("_nn") else "u"
            ctx.ob("PAIR-2", f"{tag}: the coupling is ham_data['{want}']", kg == [want], f"gamma reads {kg}", f)
            numbered.setdefault(name, []).append((cls, f_key(g.number(t))))
    for name, lst in sorted(numbered.items()):
        for cls, k in lst[1:]:
            ctx.ob("SIB-1", f"table '{name}' is the same function of (dt, coupling) in {lst[0][0]} and {cls}",
                   k == lst[0][1], "equal value numbers" if k == lst[0][1] else "the two builders differ",
                   p.lookup_method(P + cls, "init_prop_data"))


def scans_of(run_: G.StepRun) -> List[T]:
    out = []
    for e in run_.events:
        if e.kind == "scan_enter":
            sc = match_scan(e.data)
            init = sc[1]
            if any(x.op == "sym" and x.args[0] == "prop_data" for x in subterms(init)):
                out.append(e.data)
    return out


def _carry_roles(run_: G.StepRun, t: T) -> Dict[str, object]:
    from ..rules.typestate import Judge
    roles: Dict[str, object] = {}
    for e in run_.events:
        if e.kind != "store" or len(e.data[1]) != 1 or e.data[1][0].op != "const" or not isinstance(e.data[1][0].args[0], str):
            continue
        key, v = e.data[1][0].args[0], strip_wrappers(e.data[2])
        sd = Judge._scan_slot(v)
        if sd is not None and sd[0] is t:
            roles.setdefault(key, sd[1])
        elif v.op in ("list", "tuple") and v.args:
            sl = [Judge._scan_slot(a) for a in v.args]
            if all(x is not None and x[0] is t for x in sl):
                roles.setdefault(key, [x[1] for x in sl])
    return roles


def _carry_view(X: T, roles: Dict[str, object]) -> T:
    """the tuple / record carry X seen as the walker-state dict its slots are written back to"""
    out = sym("§view")
    for key, k in sorted(roles.items()):
        v = mk("list", *[getitem(X, const(i)) for i in k]) if isinstance(k, list) else getitem(X, const(k))
        out = mk("setitem", out, const(key), v)
    return out


def analyse_class(ctx, cls: str, fast: bool):
    p = ctx.p
    step = p.lookup_method(cls, "propagate")
    run_ = G.StepRun(p, step, cls)
    scans = scans_of(run_)
    result = []
    blocks_of = lambda carry_, C_: fast_blocks(run_.ev, carry_, C_) if fast else slow_blocks(run_.ev, carry_, C_)
    for t in scans:
        f, init, xs, length = match_scan(t)
        C = sym("§carry")
        x = mk("scan_x", xs, 0)
        if strip_wrappers(init).op in ("record", "tuple", "list"):
            # the sweep carries a plain tuple / record instead of the walker-state dict: the slots are given their
            # roles by the statements that write the final carry back (prop_data['overlaps'] = final[k] ...)
            roles = _carry_roles(run_, t)
            if not {"walkers", "overlaps", "weights"} <= set(roles):
                ctx.rep.note(f"{cls}.propagate: the scan at line {getattr(t, 'line', '?')} carries a tuple / record whose "
                             f"slots are not written back to prop_data['walkers' / 'overlaps' / 'weights'] "
                             f"(found {sorted(roles)}); its blocks are not decided")
                continue
            C0 = mk("scan_carry", init, t.uid)
            body = run_.ev.open_closure(f, [C0, x], at_call=t)
            raw = body.args[0] if body.op == "tuple" else body
            carry, C = _carry_view(raw, roles), _carry_view(C0, roles)
            fin = getitem(t, const(0))
            hyp = {}
            for key, k in roles.items():
                if isinstance(k, list):
                    for j_, i_ in enumerate(k):
                        hyp[getitem(fin, const(i_))] = getitem(getitem(sym(f"§S{len(result)}"), const(key)), const(j_))
                else:
                    hyp[getitem(fin, const(k))] = getitem(sym(f"§S{len(result)}"), const(key))
            # the other keys of the walker state are not carried: after the sweep they are what they were before it
            for x_ in subterms(run_.result):
                if x_.op == "getitem" and x_.args[0] is sym("prop_data") and x_.args[1].op == "const" and \
                        isinstance(x_.args[1].args[0], str) and x_.args[1].args[0] not in roles:
                    hyp[x_] = getitem(sym(f"§S{len(result)}"), x_.args[1])
            result.append((t, _carry_view(init, roles), blocks_of(carry, C), hyp))
            continue
        else:
            body = run_.ev.open_closure(f, [C, x], at_call=t)
            carry = body.args[0] if body.op == "tuple" else body
        result.append((t, init, blocks_of(carry, C), {getitem(t, const(0)): sym(f"§S{len(result)}")}))
    # random sources are named by their order of first use (their def-use terms differ between the
    # fast and the slow class because they hang off different scan results)
    order: Dict[str, int] = {}
    for _, _, blocks, _ in result:
        for b in blocks:
            src, _, col = b.rns.partition("#")
            if src not in order:
                order[src] = len(order)
            b.rns = f"source{order[src]}#{col}"
    return run_, step, result


def _num(t: T) -> Optional[float]:
    """numeric value of a constant expression (2**0.5, sqrt(2.0), 1/2 ...), None if not constant"""
    t = strip_wrappers(t)
    if t.op == "const" and isinstance(t.args[0], (int, float)) and not isinstance(t.args[0], bool):
        return float(t.args[0])
    if t.op == "binop":
        a, b = _num(t.args[1]), _num(t.args[2])
        if a is None or b is None:
            return None
        try:
            return {"+": a + b, "-": a - b, "*": a * b, "/": a / b, "**": a ** b}.get(t.args[0])
        except (ZeroDivisionError, OverflowError, ValueError):
            return None
    if t.op == "call" and array_fn(t) == "sqrt" and call_parts(t)[1]:
        a = _num(call_parts(t)[1][0])
        return a ** 0.5 if a is not None and a >= 0 else None
    return None


def uniform_variate(ctx):
    """DET-1 (distribution of the selector).  The discrete field is chosen by comparing a variate with the field-0
    probability, which is unbiased only if the variate is uniform on (0, 1).  The samplers feed standard normal
    numbers, so the map must be the normal CDF: (erf(g / sqrt 2) + 1) / 2, or ndtr(g).  A CDF applied to a rescaled
    argument (ndtr(g / sqrt 2), erf(g)) is not uniform and biases every selection whose probability is not 1/2."""
    import math
    p = ctx.p
    n = 0
    for cls in ("propagator_cpmc", "propagator_cpmc_slow", "propagator_cpmc_nn", "propagator_cpmc_nn_slow"):
        step = p.lookup_method(P + cls, "propagate")
        if step is None:
            continue
        run_ = G.StepRun(p, step, P + cls)
        prm = step.pos_params()
        if len(prm) < 5:
            continue
        fields = sym(prm[4].name)        # propagate(self, trial, ham_data, prop_data, <fields>, wave_data)
        seen = set()
        for e in run_.events:
            if e.kind != "call" or not hasattr(e.data, "op"):
                continue
            t = e.data
            fn = array_fn(t) or (func_name(t) or "").split(".")[-1]
            if fn not in ("erf", "ndtr", "cdf") or t.uid in seen or not call_parts(t)[1]:
                continue
            seen.add(t.uid)
            arg = strip_wrappers(call_parts(t)[1][0])
            if not any(x is fields for x in subterms(arg)):
                continue
            scale = 1.0
            q = m_binop(arg, "/")
            if q is not None and _num(q[1]) is not None:
                scale = 1.0 / _num(q[1])
            else:
                q = m_binop(arg, "*")
                if q is not None and (_num(q[0]) is not None or _num(q[1]) is not None):
                    scale = _num(q[0]) if _num(q[0]) is not None else _num(q[1])
                elif arg.op == "binop":
                    ctx.rep.note(f"{cls}.propagate: argument of {fn} is not a rescaled field array; uniform-variate "
                                 f"rule not applicable")
                    continue
            want = 1.0 / math.sqrt(2.0) if fn == "erf" else 1.0
            n += 1
            ctx.ob("DET-1", f"{cls}.propagate: the selector variate is the normal CDF of the Gaussian field "
                   f"({'erf(g / sqrt 2)' if fn == 'erf' else fn + '(g)'})", abs(scale - want) < 1e-9,
                   f"{fn}(g * {scale:.6g})" + ("" if abs(scale - want) < 1e-9 else f": a uniform variate needs scale {want:.6g}"),
                   step, line=e.line)
    if n == 0:
        ctx.rep.note("no erf / ndtr conversion of the Gaussian fields found in the CPMC propagators; uniform-variate rule "
                     "not applicable")


def simultaneous_update(ctx):
    """SIMUL-1: the two-index Green's-function update is written for the Green's function the method receives.  A
    rank-one correction that combines entries read before the first correction was applied (sg_i, g_ii, g_ij, ... of
    the argument) with a column read after it (out of the partially updated array) is neither the simultaneous update
    nor two sequential Sherman-Morrison steps: whenever both index pairs address the same block (same spin, or the one
    GHF matrix) the column has already changed.  Decided on the value graph of update_greens_function of every class
    that defines one; a method written with only pre-update reads, or only post-update reads in its later corrections,
    is not reported."""
    p = ctx.p
    n_cls = 0
    for q, ci in sorted(p.classes.items()):
        fi = ci.methods.get("update_greens_function")
        if fi is None or fi.is_abstract:
            continue
        ev = Evaluator(p)
        fr = ev.eval_function(fi)
        res = strip_wrappers(ev.result(fr))
        prm = [x.name for x in fi.pos_params() if x.name != "self"]
        if not prm:
            continue
        G0 = sym(prm[0])          # the Green's function is the first argument (by position, any name)

        def split_update(t):
            """(base array, written index or None for the whole array, value) when t is a functional update"""
            t = strip_wrappers(t)
            if t.op == "setitem":
                b_, i_, v_ = t.args
                vv = strip_wrappers(v_)
                if vv.op == "binop" and vv.args[0] == "+":          # X.at[idx].set(X[idx] + d) is X.at[idx].add(d)
                    for own, d_ in ((vv.args[1], vv.args[2]), (vv.args[2], vv.args[1])):
                        if strip_wrappers(own) is getitem(b_, i_):
                            return b_, i_, d_
                return b_, i_, v_
            if t.op == "call" and t.args[0].op == "attr" and t.args[0].args[1] in ("add", "set", "multiply", "mul", "subtract") \
                    and len(t.args) >= 2:
                tg = t.args[0].args[0]
                if tg.op == "getitem" and tg.args[0].op == "attr" and tg.args[0].args[1] == "at":
                    return tg.args[0].args[0], tg.args[1], t.args[1]
            if t.op == "binop" and t.args[0] in ("+", "-"):
                return t.args[1], None, t.args[2]
            return None

        chain = []                # [(update term, base, written index, value)] from the result back to the argument
        cur = res
        while cur is not G0:
            su = split_update(cur)
            if su is None:
                break
            chain.append((cur, su[0], su[1], su[2]))
            cur = strip_wrappers(su[0])
        if cur is not G0 or not chain:
            ctx.rep.note(f"{q}.update_greens_function: the result is not a chain of functional updates of its first "
                         f"argument ({show(res, maxdepth=2)[:60]}); the simultaneous-update rule is not applied")
            continue
        n_cls += 1
        chain.reverse()           # first correction first
        updated = {id(strip_wrappers(u)) for u, _, _, _ in chain}
        bad = []
        for k, (u, base, widx, val) in enumerate(chain):
            if k == 0:
                continue
            before = [x for x in subterms(val) if x.op == "getitem" and strip_wrappers(x.args[0]) is G0]
            after = []
            for x in subterms(val):
                if x.op != "getitem" or id(strip_wrappers(x.args[0])) not in updated:
                    continue
                # the earlier corrections wrote  <array>[w0, ...]; this reads <array>[r0, ...]: disjoint only when the
                # leading indices are different literals
                disjoint = True
                for (u2, _, w2, _) in chain[:k]:
                    if w2 is None:
                        disjoint = False
                        continue
                    w0 = w2.args[0] if w2.op == "tuple" and w2.args else w2
                    r0 = x.args[1].args[0] if x.args[1].op == "tuple" and x.args[1].args else x.args[1]
                    if not (w0.op == "const" and r0.op == "const" and w0.args[0] != r0.args[0]):
                        disjoint = False
                if not disjoint:
                    after.append(x)
            if before and after:
                bad.append((k, after[0], before[0]))
        ctx.ob("SIMUL-1", f"{q}.update_greens_function: every correction is built from one state of the Green's function",
               not bad, "; ".join(
                   f"correction #{k + 1} reads {show(a, maxdepth=2)[:50]} out of the partially updated array and "
                   f"{show(b, maxdepth=2)[:40]} out of the argument: for index pairs in the same block the column has "
                   f"already been changed by correction #{k}" for k, a, b in bad) or
               f"{len(chain)} correction(s), all reads from the argument", fi)
    if n_cls == 0:
        raise AnalysisError("no update_greens_function could be analysed (the incremental Green's-function update vanished)")


def cpmc_formula_siblings(ctx):
    """SIB-3: uhf_cpmc and ghf_cpmc implement one two-index Wick ratio and one pair of rank-one Green's-function
    corrections.  Each method is expanded, on its value graph, into a polynomial over role atoms -- the update constants
    c0, c1, 1/ratio, the entries g(a,b), the columns col(a) and the shifted rows sg(a) of the Green's function with
    a, b in {i, j} -- where a UHF read green[s, a, b] takes its roles from the sites and must address the spin block of one
    of them, and a GHF read green[X, Y] takes them from spin-orbital indices site + (spin == 1) * norb whose site and spin
    come from the same index pair.  Obligations: every read has a role (a GHF index built from the site of one pair and
    the spin of the other has none); the GHF polynomial has no spin gate; in the UHF polynomial every monomial with an
    off-diagonal entry g(i,j) / g(j,i) carries the gate (spin_i == spin_j) (the blocks of different spins do not couple);
    and with the gate set to 1 the two polynomials are equal.  Decides agreement of the two siblings, not the formula."""
    from fractions import Fraction
    p = ctx.p
    polys = {}
    notes = {}
    for cls in ("uhf_cpmc", "ghf_cpmc"):
        ci = p.classes.get("wavefunctions." + cls)
        for meth in ("calc_overlap_ratio", "update_greens_function"):
            fi = ci.methods.get(meth) if ci else None
            if fi is None:
                notes[(cls, meth)] = "method not defined in the class"
                continue
            ev = Evaluator(p)
            fr = ev.eval_function(fi)
            res = strip_wrappers(ev.result(fr))
            prm = [x.name for x in fi.pos_params() if x.name != "self"]
            if len(prm) < 3:
                notes[(cls, meth)] = "unexpected signature"
                continue
            G0, IDX, CST = sym(prm[0]), sym(prm[-2]), sym(prm[-1])
            RAT = sym(prm[1]) if meth == "update_greens_function" and len(prm) >= 4 else None
            pair = {0: (getitem(getitem(IDX, const(0)), const(0)), getitem(getitem(IDX, const(0)), const(1)), "i"),
                    1: (getitem(getitem(IDX, const(1)), const(0)), getitem(getitem(IDX, const(1)), const(1)), "j")}
            spin_of = {"i": pair[0][0], "j": pair[1][0]}
            problems: List[str] = []

            def site_role(x):
                x = strip_wrappers(x)
                for k in (0, 1):
                    if x is pair[k][1]:
                        return pair[k][2]
                return None

            def so_role(x):
                """role of a GHF spin-orbital index  site + (spin == 1) * norb"""
                x = strip_wrappers(x)
                mb = m_binop(x, "+")
                if mb is None:
                    return None
                for a_, b_ in ((mb[0], mb[1]), (mb[1], mb[0])):
                    r_ = site_role(a_)
                    mm = m_binop(strip_wrappers(b_), "*")
                    if r_ is None or mm is None:
                        continue
                    for c_, n_ in ((mm[0], mm[1]), (mm[1], mm[0])):
                        c_ = strip_wrappers(c_)
                        if c_.op == "cmp" and c_.args[0] == "==" and len(c_.args) == 3:
                            sp = [y for y in (strip_wrappers(c_.args[1]), strip_wrappers(c_.args[2])) if y.op != "const"]
                            if len(sp) == 1:
                                if sp[0] is spin_of[r_]:
                                    return r_
                                problems.append(f"spin-orbital index {show(x, maxdepth=3)[:70]} combines the site of pair "
                                                f"'{r_}' with the spin of the other pair")
                                return "?"
                return None

            def index_chain(t):
                ix = []
                while t.op == "getitem":
                    ix = (list(t.args[1].args) if t.args[1].op == "tuple" else [t.args[1]]) + ix
                    t = strip_wrappers(t.args[0])
                return t, ix

            def read_atom(t):
                """atom for a read of the Green's function argument, None when t is not one"""
                base, ix = index_chain(t)
                if base is not G0 or not ix:
                    return None
                if cls == "uhf_cpmc":
                    if len(ix) == 2:                     # green[s, a]: row a of spin block s
                        s_, a_ = (strip_wrappers(y) for y in ix)
                        ra = site_role(a_)
                        if ra is None:
                            return None
                        if s_ is not spin_of[ra]:
                            problems.append(f"{show(t, maxdepth=3)[:60]} addresses a spin block that does not belong to its site")
                        return f"row({ra})"
                    if len(ix) != 3:
                        return None
                    s_, a_, b_ = (strip_wrappers(y) for y in ix)
                    ra = site_role(a_) if a_.op != "slice" else ":"
                    rb = site_role(b_) if b_.op != "slice" else ":"
                    if ra is None or rb is None:
                        return None
                    owners = [r_ for r_ in (ra, rb) if r_ != ":"]
                    if not any(s_ is spin_of[r_] for r_ in owners):
                        problems.append(f"{show(t, maxdepth=3)[:60]} addresses a spin block that belongs to neither of its sites")
                    return f"g({ra},{rb})" if ":" not in (ra, rb) else (f"col({rb})" if ra == ":" else f"row({ra})")
                if len(ix) == 2:
                    a_, b_ = (strip_wrappers(y) for y in ix)
                    ra = so_role(a_) if a_.op != "slice" else ":"
                    rb = so_role(b_) if b_.op != "slice" else ":"
                    if ra is None or rb is None:
                        return None
                    return f"g({ra},{rb})" if ":" not in (ra, rb) else (f"col({rb})" if ra == ":" else f"row({ra})")
                if len(ix) == 1:
                    ra = so_role(ix[0])
                    return f"row({ra})" if ra else None
                return None

            def atom(t):
                t = strip_wrappers(t)
                for k in (0, 1):
                    if t is getitem(CST, const(k)):
                        return f"c{k}"
                if RAT is not None and t is RAT:
                    return "ratio"
                if t.op == "cmp" and t.args[0] == "==" and len(t.args) == 3 and \
                        {strip_wrappers(t.args[1]).uid, strip_wrappers(t.args[2]).uid} == {spin_of["i"].uid, spin_of["j"].uid}:
                    return "same"
                # shifted row  G[a].at[a].add(-1)  (UHF: G[s, a].at[a].add(-1))
                if t.op == "call" and t.args[0].op == "attr" and t.args[0].args[1] == "add" and len(t.args) == 2 and \
                        is_const(strip_wrappers(t.args[1]), -1):
                    tg = t.args[0].args[0]
                    if tg.op == "getitem" and tg.args[0].op == "attr" and tg.args[0].args[1] == "at":
                        row = read_atom(strip_wrappers(tg.args[0].args[0]))
                        at_ = strip_wrappers(tg.args[1])
                        r_at = site_role(at_) if cls == "uhf_cpmc" else so_role(at_)
                        if row and row.startswith("row(") and r_at and row == f"row({r_at})":
                            return f"sg({r_at})"
                        if row and row.startswith("row("):
                            problems.append(f"{show(t, maxdepth=3)[:60]}: the row of one index is shifted at the position of the other")
                            return f"sg(?)"
                ra = read_atom(t)
                if ra is not None:
                    return ra
                return None

            unknown: List[str] = []

            def poly(t):
                t = strip_wrappers(t)
                if t.op == "const" and isinstance(t.args[0], (int, float)) and not isinstance(t.args[0], bool):
                    return {(): Fraction(t.args[0]).limit_denominator(10 ** 6)} if t.args[0] != 0 else {}
                a_ = atom(t)
                if a_ is not None:
                    return {(a_,): Fraction(1)}
                if t.op == "unop" and t.args[0] == "-":
                    return {k: -v for k, v in poly(t.args[1]).items()}
                if t.op == "binop" and t.args[0] in ("+", "-"):
                    l_, r_ = poly(t.args[1]), poly(t.args[2])
                    out = dict(l_)
                    for k, v in r_.items():
                        out[k] = out.get(k, 0) + (v if t.args[0] == "+" else -v)
                    return {k: v for k, v in out.items() if v != 0}
                if (t.op == "binop" and t.args[0] == "*") or (t.op == "call" and (array_fn(t) or "") == "outer"
                                                              and len(call_parts(t)[1]) == 2):
                    ops_ = (t.args[1], t.args[2]) if t.op == "binop" else tuple(call_parts(t)[1])
                    l_, r_ = poly(ops_[0]), poly(ops_[1])
                    out = {}
                    for k1, v1 in l_.items():
                        for k2, v2 in r_.items():
                            k = tuple(sorted(k1 + k2))
                            out[k] = out.get(k, 0) + v1 * v2
                    return {k: v for k, v in out.items() if v != 0}
                if t.op == "binop" and t.args[0] == "/":
                    d_ = atom(t.args[2])
                    if d_ is not None:
                        return {tuple(sorted(k + (f"1/{d_}",))): v for k, v in poly(t.args[1]).items()}
                unknown.append(show(t, maxdepth=2)[:50])
                return {(f"?{t.uid}",): Fraction(1)}

            if meth == "calc_overlap_ratio":
                P = poly(res)
            else:
                # the corrections: everything added to the argument, whether block by block or in one sum
                P = {}
                cur = res
                ok_chain = True
                while cur is not G0:
                    t_ = strip_wrappers(cur)
                    if t_.op == "call" and t_.args[0].op == "attr" and t_.args[0].args[1] == "add" and len(t_.args) == 2 and \
                            t_.args[0].args[0].op == "getitem" and t_.args[0].args[0].args[0].op == "attr" and \
                            t_.args[0].args[0].args[0].args[1] == "at":
                        val, cur = t_.args[1], strip_wrappers(t_.args[0].args[0].args[0].args[0])
                    elif t_.op == "binop" and t_.args[0] == "+":
                        val, cur = t_.args[2], strip_wrappers(t_.args[1])
                    else:
                        ok_chain = False
                        break
                    for k, v in poly(val).items():
                        P[k] = P.get(k, 0) + v
                if not ok_chain:
                    notes[(cls, meth)] = f"result is not a chain of additions to the argument ({show(res, maxdepth=2)[:50]})"
                    continue
                P = {k: v for k, v in P.items() if v != 0}
            if unknown:
                notes[(cls, meth)] = f"sub-expression(s) outside the role vocabulary: {unknown[:2]}"
                continue
            polys[(cls, meth)] = (P, problems, fi)
    for (cls, meth), why in sorted(notes.items()):
        ctx.rep.note(f"{cls}.{meth}: {why}; the UHF / GHF formula comparison is not applied to it")

    def fmt(P):
        return " + ".join(f"{v}*{'*'.join(k) or '1'}" for k, v in sorted(P.items()))[:300]
    for meth in ("calc_overlap_ratio", "update_greens_function"):
        for cls in ("uhf_cpmc", "ghf_cpmc"):
            if (cls, meth) in polys:
                P, problems, fi = polys[(cls, meth)]
                ctx.ob("SIB-3", f"{cls}.{meth}: every read of the Green's function addresses the block / spin-orbital of its "
                       f"own index pair", not problems, "; ".join(sorted(set(problems))[:2]) or f"{len(P)} monomials", fi)
        if ("ghf_cpmc", meth) in polys:
            P, _, fi = polys[("ghf_cpmc", meth)]
            gated = [k for k in P if "same" in k]
            ctx.ob("SIB-3", f"ghf_cpmc.{meth}: no spin gate (the blocks of a GHF Green's function couple)", not gated,
                   f"{len(gated)} monomial(s) carry (spin_i == spin_j)" if gated else f"{len(P)} monomials", fi)
        if ("uhf_cpmc", meth) in polys:
            P, _, fi = polys[("uhf_cpmc", meth)]
            ungated = [k for k in P if any(a_ in ("g(i,j)", "g(j,i)") for a_ in k) and "same" not in k]
            ctx.ob("SIB-3", f"uhf_cpmc.{meth}: off-diagonal entries only enter for equal spins", not ungated,
                   f"monomial {'*'.join(ungated[0])} has no (spin_i == spin_j) factor" if ungated else f"{len(P)} monomials", fi)
        if ("uhf_cpmc", meth) in polys and ("ghf_cpmc", meth) in polys:
            Pu, prob_u, fu = polys[("uhf_cpmc", meth)]
            Pg, prob_g, _ = polys[("ghf_cpmc", meth)]
            if prob_u or prob_g:
                continue

            def ungate(P):
                out = {}
                for k, v in P.items():
                    k2 = tuple(a_ for a_ in k if a_ != "same")
                    out[k2] = out.get(k2, 0) + v
                return {k: v for k, v in out.items() if v != 0}
            a_, b_ = ungate(Pu), ungate(Pg)
            diff = sorted(set(a_.items()) ^ set(b_.items()))
            ctx.ob("SIB-3", f"uhf_cpmc / ghf_cpmc: {meth} is the same polynomial in the update constants and the entries, "
                   f"columns and shifted rows of the Green's function", a_ == b_,
                   f"{len(a_)} monomials" if a_ == b_ else
                   f"differ in {['*'.join(k) + ':' + str(v) for k, v in diff][:4]}", fu)


def run(ctx):
    uniform_variate(ctx)
    simultaneous_update(ctx)
    cpmc_formula_siblings(ctx)
    p = ctx.p
    pairs = [("propagator_cpmc", "propagator_cpmc_slow"), ("propagator_cpmc_nn", "propagator_cpmc_nn_slow")]
    n_blocks = 0
    truncated = False  # a block whose pairing is broken ends the peel early: reported, not a lost anchor
    for fcls, scls in pairs:
        # the fast propagator and its brute-force reference prepare the same one-body factors: both resolve the
        # propagation-intermediates builder (exp_h1, mean-field shifts) to one and the same function
        bf, bs = p.lookup_method(P + fcls, "_build_propagation_intermediates"), p.lookup_method(
            P + scls, "_build_propagation_intermediates")
        if bf is not None and bs is not None:
            ctx.ob("SIB-1", f"{fcls} / {scls}: the same propagation-intermediates builder serves both", bf.qualname == bs.qualname,
                   f"{fcls} -> {bf.qualname}; {scls} -> {bs.qualname}", bf)
            from ..rules import common as _common
            _common.per_spin_one_body(ctx, P + fcls, bf)
        frun, fstep, fres = analyse_class(ctx, P + fcls, True)
        srun, sstep, sres = analyse_class(ctx, P + scls, False)
        # PAIR-2 inside the fast blocks
        for si, (t, init, blocks, _h) in enumerate(fres):
            for bi, b in enumerate(blocks):
                n_blocks += 1
                truncated = truncated or bool(b.problems)
                tag = f"{fcls}.propagate scan #{si} block #{bi}"
                ctx.ob("PAIR-2", f"{tag}: ratio, Green's update and row scaling use one index pair and matching constants",
                       not b.problems and len(b.pairs) == 2, "; ".join(b.problems) or f"{b}", fstep)
                ctx.ob("PAIR-2", f"{tag}: mask True selects field 0 with the field-0 probability", b.prob_field0,
                       "rns < a0/(a0+a1)" if b.prob_field0 else "the comparison uses another field's probability", fstep)
                ctx.ob("PAIR-2", f"{tag}: the weight is multiplied by the sum of this block's two probabilities",
                       b.norm_ok, "", fstep)
        for si, (t, init, blocks, _h) in enumerate(sres):
            for bi, b in enumerate(blocks):
                n_blocks += 1
                truncated = truncated or bool(b.problems)
                tag = f"{scls}.propagate scan #{si} block #{bi}"
                ctx.ob("PAIR-2", f"{tag}: both candidate fields scale the same rows with their own constants",
                       not b.problems and 1 <= len(b.pairs) <= 2, "; ".join(b.problems) or f"{b}", sstep)
                ctx.ob("PAIR-2", f"{tag}: mask True selects field 0 with the field-0 probability", b.prob_field0, "",
                       sstep)
                ctx.ob("PAIR-2", f"{tag}: the weight is multiplied by the sum of this block's two ratios", b.norm_ok,
                       "", sstep)
        # SIB-1: same number of scans, same block sequences
        same_n = len(fres) == len(sres)
        ctx.ob("SIB-1", f"{fcls} / {scls}: same number of update scans", same_n, f"{len(fres)} vs {len(sres)}", fstep)
        for si, ((tf, initf, bf, _hf), (tsl, inits, bs, _hs)) in enumerate(zip(fres, sres)):
            kf = [b.key() for b in bf]
            ks = [b.key() for b in bs]
            if not kf or not ks:
                ctx.rep.note(f"{fcls} / {scls}: scan #{si}: the update blocks of one side were not recognised "
                             f"({len(kf)} fast, {len(ks)} slow); the sequence comparison does not apply")
                continue
            ctx.ob("SIB-1", f"{fcls} / {scls}: scan #{si} applies the same sequence of (spin, site, constant, random "
                   f"column) blocks", kf == ks, f"fast {bf}" + ("" if kf == ks else f"  vs slow {bs}"), fstep)
            # scanned index range
            xf, xs_ = match_scan(tf)[2], match_scan(tsl)[2]
            ctx.ob("SIB-1", f"{fcls} / {scls}: scan #{si} runs over the same sites / neighbour pairs",
                   _trip_count(xf) is _trip_count(xs_),
                   show(xf, maxdepth=3)[:60], fstep)
            # state entering the scan: identical def-use terms for walkers / weights / overlaps
            hyp_f, hyp_s = {}, {}
            for sj in range(si):
                hyp_f.update(fres[sj][3])
                hyp_s.update(sres[sj][3])
            gf = GVN(frun.ev, hyp_f)
            gs = GVN(srun.ev, hyp_s)
            gf.two_spin_walkers = gs.two_spin_walkers = True
            gs.atoms, gs.atom_keys = gf.atoms, gf.atom_keys
            for k in ("walkers", "weights", "overlaps"):
                a = gf.number(getitem(initf, const(k)))
                b_ = gs.number(getitem(inits, const(k)))
                ctx.ob("SIB-1", f"{fcls} / {scls}: '{k}' entering scan #{si} are the same function of the inputs",
                       f_key(a) == f_key(b_), "equal value numbers" if f_key(a) == f_key(b_) else
                       f"fast {gf.describe(a)[:120]} vs slow {gf.describe(b_)[:120]}", fstep)
        # epilogue
        if fres and sres:
            hyp_f, hyp_s = {}, {}
            for r_ in fres:
                hyp_f.update(r_[3])
            for r_ in sres:
                hyp_s.update(r_[3])
            gf = GVN(frun.ev, hyp_f)
            gs = GVN(srun.ev, hyp_s)
            gf.two_spin_walkers = gs.two_spin_walkers = True
            gs.atoms, gs.atom_keys = gf.atoms, gf.atom_keys
            for k in ("walkers", "weights", "overlaps", "pop_control_ene_shift"):
                a = gf.number(getitem(frun.result, const(k)))
                b_ = gs.number(getitem(srun.result, const(k)))
                ctx.ob("SIB-1", f"{fcls} / {scls}: final '{k}' is the same function of the post-scan state",
                       f_key(a) == f_key(b_), "equal value numbers" if f_key(a) == f_key(b_) else
                       f"fast {gf.describe(a)[:120]} vs slow {gf.describe(b_)[:120]}", fstep)
    # neighbour blocks: four spin pairs, four random columns
    _, nstep, nres = analyse_class(ctx, P + "propagator_cpmc_nn", True)
    if len(nres) == 2:
        nb = nres[1][2]
        spins = sorted(tuple(s for s, _, _ in sorted(b.pairs, key=lambda q: q[2])) for b in nb)
        cols = sorted(b.rns for b in nb)
        ctx.ob("PAIR-2", "propagator_cpmc_nn: the neighbour scan covers (up,up), (up,dn), (dn,up), (dn,dn) once each",
               spins == [(0, 0), (0, 1), (1, 0), (1, 1)], f"spin pairs {spins}", nstep)
        ctx.ob("PAIR-2", "propagator_cpmc_nn: the four neighbour blocks draw from four distinct random columns",
               len(set(cols)) == 4, f"{len(set(cols))} distinct columns", nstep)
        ctx.ob("PAIR-2", "propagator_cpmc_nn: neighbour blocks use the neighbour constants, the on-site scan the on-site ones",
               all(b.hs == "hs_constant_nn" for b in nb) and all(b.hs == "hs_constant_onsite" for b in nres[0][2]),
               f"{[b.hs for b in nres[0][2]]} / {[b.hs for b in nb]}", nstep)
        on = nres[0][2]
        ctx.ob("PAIR-2", "propagator_cpmc_nn: the on-site block pairs (up, x) with (dn, x)", len(on) == 1 and
               sorted((s, c) for s, _, c in on[0].pairs) == [(0, 0), (1, 1)] and len({r for _, r, _ in on[0].pairs}) == 1,
               f"{on}", nstep)
    else:
        ctx.ob("PAIR-2", "propagator_cpmc_nn: on-site scan followed by neighbour scan", False, f"{len(nres)} scans", nstep)
    check_hs_tables(ctx, p)
    if n_blocks == 0:
        raise AnalysisError("no CPMC update block recognised (the propagate scans vanished)")
    if n_blocks < 12 and not truncated:
        # a block written in a form the peeling does not recognise is not judged; the recognised ones are
        ctx.rep.note(f"only {n_blocks} of 12 CPMC update blocks recognised; the others are not judged")
    # typestate over the sampler for the four classes
    rep = ts.rep_change_functions(p)
    entry = p.func("sampling.sampler.propagate_phaseless")
    for cls in ("propagator_cpmc", "propagator_cpmc_slow", "propagator_cpmc_nn", "propagator_cpmc_nn_slow"):
        r = ts.analyse_run(ts.TSRun(p, entry, P + cls, rep))
        bad = [(e.line, k) for e, k, ok, why in r.reads if not ok]
        ctx.ob("TS-3", f"sampler.propagate_phaseless x {cls}: cached overlaps / Green's functions coherent at every read",
               not bad and len(r.reads) >= 3, f"stale reads {bad}" if bad else f"{len(r.reads)} reads", entry)
