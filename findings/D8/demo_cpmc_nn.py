import os, sys
sys.path.insert(0, os.getcwd())
import numpy as np
from ad_afqmc import config
config.setup_jax()
from jax import numpy as jnp, random
from ad_afqmc import hamiltonian, propagation, wavefunctions
np.random.seed(7)
norb, nelec_sp = 6, (3, 3)
h1 = np.zeros((norb, norb))
for i in range(norb):
    h1[i, (i+1) % norb] = h1[(i+1) % norb, i] = -1.0
neighbors = tuple((i, (i + 1) % norb) for i in range(norb))
trial = wavefunctions.uhf_cpmc(norb, nelec_sp)
wave_data = {"mo_coeff": [jnp.array(np.random.rand(norb, 3)), jnp.array(np.random.rand(norb, 3))]}
wave_data["rdm1"] = jnp.array([wave_data["mo_coeff"][0] @ wave_data["mo_coeff"][0].T, wave_data["mo_coeff"][1] @ wave_data["mo_coeff"][1].T])
for name, cls in (("nn fast", propagation.propagator_cpmc_nn), ("nn slow", propagation.propagator_cpmc_nn_slow)):
    for dt, U1 in ((0.3, 0.1), (0.4, 0.1), (0.3, 0.3), (0.5, 0.05)):
        prop = cls(dt=dt, n_walkers=20, neighbors=neighbors)
        ham = hamiltonian.hamiltonian(norb)
        ham_data = {"h0": 0.0, "h1": jnp.array([h1, h1]), "chol": jnp.zeros((1, norb*norb)), "ene0": 0.0, "u": 8.0, "u_1": U1}
        ham_data = ham.build_propagation_intermediates(ham_data, prop, trial, wave_data)
        ham_data = ham.build_measurement_intermediates(ham_data, trial, wave_data)
        pd = prop.init_prop_data(trial, wave_data, ham_data)
        pd["key"] = random.PRNGKey(3)
        nan_at = None; alive_before=None
        for step in range(40):
            fields = jnp.array(np.random.randn(20, norb)); wb = np.array(pd['weights'])
            pd = prop.propagate(trial, ham_data, pd, fields, wave_data)
            w_after = np.array(pd["weights"])
            pd = prop.orthonormalize_walkers(pd)          # what the sampler does after every block of steps
            pd["overlaps"] = trial.calc_overlap(pd["walkers"], wave_data)
            w = np.array(pd["weights"])
            if not np.all(np.isfinite(w)) and nan_at is None:
                nan_at = step; alive_before = int((wb>0).sum())
        print(name, dt, U1, "alive_before_nan", alive_before, "first non-finite weight at step", nan_at, "shift", float(pd["pop_control_ene_shift"]), "n_zero", int((np.array(pd["weights"])==0).sum()))
