"""SIB-2 / SYM-1 instances for the trial wave functions (used by C01, C02, C03).

Every instance compares two value numbers computed by GVN-L; each is a *contradiction*
rule: if two hand-written copies of one quantity differ, one of them is wrong -- the
checker does not need to know which.
"""

from __future__ import annotations

from typing import Dict, List, Optional, Tuple

from ..model import AnalysisError
from ..symex import (NONE, T, Evaluator, call, const, getitem, mk, name, show, sym)
from .gvn import GVN, TooBig, f_key
from .siblings import Evald, evaluate, swap_map, trial_evaluator

W = "wavefunctions."
HD, WD, SELF = sym("ham_data"), sym("wave_data"), sym("self")


def key(d: T, k: str, i: Optional[int] = None) -> T:
    t = getitem(d, const(k))
    return t if i is None else getitem(t, const(i))


def nelec(i: int) -> T:
    return getitem(mk("attr", SELF, "nelec"), const(i))


def shape1(t: T) -> T:
    return getitem(mk("attr", t, "shape"), const(1))


def ratio_denominator(t: Optional[T]) -> Optional[T]:
    """The hand-coded CI routines return  numerator / <overlap ratio> (+ constant terms): the one non-constant
    denominator reachable through the top-level sums of the result."""
    from ..symex import strip_wrappers
    dens: Dict[int, T] = {}

    def walk(x, depth=0):
        x = strip_wrappers(x)
        if depth > 8:
            return
        if x.op == "binop" and x.args[0] in ("+", "-"):
            walk(x.args[1], depth + 1)
            walk(x.args[2], depth + 1)
        elif x.op == "binop" and x.args[0] == "/":
            d = strip_wrappers(x.args[2])
            if d.op != "const":
                dens[d.uid] = d
            walk(x.args[1], depth + 1)

    if t is not None:
        walk(t)
    return next(iter(dens.values())) if len(dens) == 1 else None


def _numerator(t: Optional[T]) -> Optional[T]:
    """numerator of the ratio found by ratio_denominator"""
    from ..symex import strip_wrappers
    from .match import m_binop, sum_terms
    if t is None:
        return None
    for _, x in sum_terms(t):
        q = m_binop(strip_wrappers(x), "/")
        if q is not None and strip_wrappers(q[1]).op != "const":
            return q[0]
    return None


def sum_factor(t: Optional[T]) -> Optional[T]:
    """(1 + a + b) * o0  ->  the factor that is a sum containing the constant 1."""
    from ..symex import strip_wrappers
    from .match import product_factors, sum_terms
    if t is None:
        return None
    got = []
    for f in product_factors(t):
        f0 = strip_wrappers(f)
        terms = sum_terms(f0)
        if len(terms) >= 2 and any(strip_wrappers(x).op == "const" and strip_wrappers(x).args[0] in (1, 1.0) for _, x in terms):
            got.append(f0)
    return got[0] if len(got) == 1 else None


def beta_walker(e: "Evald") -> Optional[T]:
    """ucisd works with the down walker in the beta MO basis: mo_coeff[1].T . walker_dn[:, :n_dn]"""
    from ..symex import call_parts, strip_wrappers, subterms
    moB = key(WD, "mo_coeff", 1)
    hits = {}
    for x in subterms(e.result):
        if x.op == "call" and x.args[0].op == "attr" and x.args[0].args[1] == "dot":
            rec = strip_wrappers(x.args[0].args[0])
            if rec.op == "attr" and rec.args[1] == "T" and strip_wrappers(rec.args[0]) is moB:
                a = call_parts(x)[1]
                if a and any(y is sym("walker_dn") for y in subterms(a[0])):
                    hits[x.uid] = x
        if x.op == "binop" and x.args[0] == "@":
            rec = strip_wrappers(x.args[1])
            if rec.op == "attr" and rec.args[1] == "T" and strip_wrappers(rec.args[0]) is moB and \
                    any(y is sym("walker_dn") for y in subterms(x.args[2])):
                hits[x.uid] = x
    return next(iter(hits.values())) if len(hits) == 1 else None


def only_built_from(t: T, leaves) -> Optional[T]:
    """The maximal subterm of t that mentions every one of `leaves` and no other input (constants aside)."""
    from ..symex import strip_wrappers, subterms
    leaves = list(leaves)

    def pure(x, memo={}):
        if x.uid in memo:
            return memo[x.uid]
        if any(x is l for l in leaves):
            r = True
        elif x.op in ("const", "name"):
            r = True
        elif x.op in ("sym", "havoc", "scan_x", "vmap_elem", "phi"):
            r = False
        else:
            r = all(pure(a) for a in x.args if isinstance(a, T))
        memo[x.uid] = r
        return r

    cands = [x for x in subterms(t) if pure(x) and all(any(y is l for y in subterms(x)) for l in leaves)]
    top = [x for x in cands if not any(x is not y and any(z is x for z in subterms(y)) for y in cands)]
    return top[0] if len(top) == 1 else None


class Sib:
    def __init__(self, ctx):
        self.ctx = ctx
        self.p = ctx.p
        self.ev = trial_evaluator(ctx.p)
        self.cache: Dict[Tuple[str, str], Evald] = {}

    def E(self, cls: str, meth: str) -> Evald:
        k = (cls, meth)
        if k not in self.cache:
            self.cache[k] = evaluate(self.p, self.ev, W + cls, meth)
        return self.cache[k]

    def cmp(self, rule: str, construct: str, a: Optional[T], b: Optional[T], fi, hyp_a=None, hyp_b=None,
            ignore_conj=False, frame=None, what="", optional=False) -> bool:
        if a is None or b is None:
            if optional:
                # the sub-expression this instance compares is picked out structurally (ratio denominator, sum factor);
                # when the code no longer has that shape the instance does not apply -- the whole-result siblings of
                # the same routine still do.  Recorded, not silently dropped.
                self.ctx.rep.note(f"{construct}: not applicable to the current shape of the code (sub-expression not found)")
                return True
            raise AnalysisError(f"{construct}: compared quantity no longer exists (anchor vanished)")
        g = GVN(self.ev, hyp_a, ignore_conj, frame=frame)
        try:
            fa = g.number(a)
            if hyp_b is not None:
                g2 = GVN(self.ev, hyp_b, ignore_conj, frame=frame)
                g2.atoms, g2.atom_keys = g.atoms, g.atom_keys
                fb = g2.number(b)
            else:
                fb = g.number(b)
        except TooBig:
            raise AnalysisError(f"{construct}: value numbering exceeded its budget")
        from .gvn import compare_forms
        verdict = compare_forms(g, fa, fb)
        ok = verdict != "differ"
        msg = "equal value numbers" + (f" ({what})" if what else "")
        if verdict == "undecided":
            msg = ("undecided: the two copies are written with different operations (value numbering does not relate "
                   "them); no claim")
            self.ctx.rep.count("undecided_comparisons")
            self.ctx.rep.note(f"{construct}: {msg}")
        if not ok:
            da = {k_: v for k_, v in fa.items() if fb.get(k_) != v}
            db = {k_: v for k_, v in fb.items() if fa.get(k_) != v}
            msg = (f"the two copies differ{(' (' + what + ')') if what else ''}: "
                   f"{g.describe(da)[:200]}  vs  {g.describe(db)[:200]}")
        self.ctx.ob(rule, construct, ok, msg, fi)
        return ok

    # ------------------------------------------------------------ holomorphy
    _CONJ = ("conj", "conjugate", "vdot", "real", "imag", "abs", "absolute", "angle", "norm")

    def holomorphy(self, prefixes: Tuple[str, ...]):
        """HOLO-1.  <psi_T| ... |phi> is linear in the walker's orbitals, so every mixed estimator (overlap, Green's
        function, overlap ratio, local energy, force bias) is a *holomorphic* function of the walker: no complex
        conjugation, real / imaginary part, modulus or phase may be applied to a walker-dependent quantity inside it
        (walkers become complex after the first propagation step; a conjugated walker gives the right answer for real
        walkers only).  Checked on the value graph of every trial class's methods whose name starts with one of
        `prefixes`, helpers inlined; the walker is identified by the parameter names of the trial API."""
        from ..symex import array_fn, call_parts, strip_wrappers, subterms
        from .match import m_method
        p = self.p
        n_fn = 0
        bad: List[Tuple[object, str]] = []
        for cname, ci in sorted(p.classes.items()):
            if not cname.startswith(W):
                continue
            for mname, fi in sorted(ci.methods.items()):
                if not any(mname.startswith(pr) for pr in prefixes) or fi.is_abstract:
                    continue
                wp = [x.name for x in fi.params if x.name.startswith("walker")]
                if not wp:
                    continue
                try:
                    e = self.E(cname[len(W):], mname)
                except AnalysisError:
                    continue
                if e.result is None:
                    continue
                n_fn += 1
                ws = {sym(w_) for w_ in wp}
                memo: Dict[int, bool] = {}

                def dep(t, memo=memo, ws=ws):
                    return any(x in ws for x in subterms(t))

                for x in subterms(e.result):
                    hit = None
                    if x.op == "call":
                        fn = array_fn(x)
                        if fn in self._CONJ:
                            args = call_parts(x)[1]
                            args = args[:1] if fn == "vdot" else args
                            if any(dep(y) for y in args):
                                hit = fn
                        m = m_method(x, "conj", "conjugate")
                        if m is not None and dep(m[0]):
                            hit = ".conj()"
                        # a cast to a real dtype is a real part: x.astype(float32) / jnp.float64(x) / jnp.asarray(x, dtype=float)
                        m = m_method(x, "astype")
                        cast_to = None
                        if m is not None and dep(m[0]) and m[1]:
                            cast_to = m[1][0]
                        elif fn in ("asarray", "array") and "dtype" in call_parts(x)[2] and any(dep(y) for y in call_parts(x)[1]):
                            cast_to = call_parts(x)[2]["dtype"]
                        elif fn in ("float32", "float64", "float16", "float_") and any(dep(y) for y in call_parts(x)[1]):
                            cast_to = x.args[0]
                        if cast_to is not None:
                            dn_ = show(cast_to).split(".")[-1].strip("'\"")
                            if dn_.startswith("float") or dn_.startswith("int") or dn_ in ("float", "int", "double", "single"):
                                hit = f"cast to the real dtype {dn_}"
                    elif x.op == "attr" and x.args[1] in ("real", "imag", "H") and dep(x.args[0]):
                        hit = "." + x.args[1]
                    if hit:
                        bad.append((fi, f"{cname[len(W):]}.{mname}: {hit} applied to {show(x)[:90]}"))
        if n_fn == 0:
            raise AnalysisError("HOLO-1: no trial estimator with a walker parameter found (anchor vanished)")
        self.ctx.ob("HOLO-1", f"trial estimators ({', '.join(prefixes)}*): no conjugation / real part / modulus of a "
                    f"walker-dependent quantity", not bad,
                    f"{n_fn} methods evaluated" + ("; " + "; ".join(b[1] for b in bad[:4]) if bad else ""),
                    bad[0][0] if bad else self.p.lookup_method(W + "wave_function", "calc_overlap") or None)

    # ------------------------------------------------- all Cholesky vectors
    def cholesky_axis_complete(self, prefixes: Tuple[str, ...]):
        """CAP-1.  The two-body part of every estimator is a sum over *all* Cholesky vectors.  A partial slice of the
        vector axis of ham_data['chol'] / ['rot_chol'] (chol[:k], e.g. to make the count divisible by a chunk size) is
        allowed only together with its complement chol[k:]; otherwise the trailing vectors silently drop out."""
        from ..symex import strip_wrappers, subterms
        from .match import strip_reshape
        p = self.p
        n_fn, bad = 0, []
        roots = {key(HD, "chol"), key(HD, "rot_chol")}

        def is_chol(t) -> bool:
            t = strip_reshape(t)
            if t in roots:
                return True
            return t.op == "getitem" and t.args[1].op == "const" and strip_reshape(t.args[0]) in roots

        for cname, ci in sorted(p.classes.items()):
            if not cname.startswith(W):
                continue
            for mname, fi in sorted(ci.methods.items()):
                if not any(mname.startswith(pr) for pr in prefixes) or fi.is_abstract:
                    continue
                try:
                    e = self.E(cname[len(W):], mname)
                except AnalysisError:
                    continue
                if e.result is None:
                    continue
                n_fn += 1
                heads, tails = [], []
                for x in subterms(e.result):
                    if x.op != "getitem" or not is_chol(x.args[0]):
                        continue
                    ix = x.args[1]
                    if ix.op == "tuple" and ix.args:
                        ix = ix.args[0]
                    if ix.op != "slice" or len(ix.args) < 2:
                        continue
                    lo, hi = ix.args[0], ix.args[1]
                    lo_none = not hasattr(lo, "op") or (lo.op == "const" and lo.args[0] in (None, 0))
                    hi_none = not hasattr(hi, "op") or (hi.op == "const" and hi.args[0] is None)
                    if lo_none and not hi_none:
                        heads.append(hi)
                    elif hi_none and not lo_none:
                        tails.append(lo)
                for h in heads:
                    if not any(t is h for t in tails):
                        bad.append((fi, f"{cname[len(W):]}.{mname}: vectors [:{show(h)[:60]}] are used, the rest never"))
        if n_fn == 0:
            raise AnalysisError("CAP-1: no estimator found (anchor vanished)")
        self.ctx.ob("CAP-1", f"trial estimators ({', '.join(prefixes)}*): the Cholesky-vector axis is never truncated",
                    not bad, f"{n_fn} methods evaluated" + ("; " + "; ".join(b[1] for b in bad[:3]) if bad else ""),
                    bad[0][0] if bad else None)

    # ------------------------------------------- trial data seen by both entries
    # components of wave_data the unrestricted routine reads and the restricted one legitimately does not
    _RESTRICTED_SKIPS = {
        ("multislater", ("ref_det", 1)): "restricted walkers have one spin block; the restricted multi-Slater path is "
                                         "written for equal alpha / beta reference strings and reads ref_det[0] only",
    }

    @staticmethod
    def _trial_components(t: T) -> set:
        """maximal constant-index paths rooted at wave_data that a value depends on: ('mo_coeff', 1), ('ci1',) ..."""
        out = set()
        # values only: X.shape / .size / .ndim / .dtype of a component is book-keeping, not a dependence on its entries
        seen, stack, nodes = set(), [t], []
        while stack:
            x = stack.pop()
            if not isinstance(x, T) or x.uid in seen:
                continue
            seen.add(x.uid)
            if x.op == "attr" and x.args[1] in ("shape", "size", "ndim", "dtype"):
                continue
            nodes.append(x)
            stack.extend(a for a in x.args if isinstance(a, T))
        for x in nodes:
            if x.op == "getitem" and x.args[1].op == "const":
                path, y = [], x
                while y.op == "getitem" and y.args[1].op == "const":
                    path.append(y.args[1].args[0])
                    y = y.args[0]
                if y is WD:
                    out.add(tuple(reversed(path)))
        return {a for a in out if not any(b != a and b[:len(a)] == a for b in out)}

    def restricted_consumes_trial_data(self, which: str):
        """SIB-2 (dependence form).  A class that writes its own restricted entry point next to an unrestricted one
        describes the same trial state in both: every component of wave_data the unrestricted routine depends on
        (e.g. both spin blocks of the trial orbitals) must also reach the restricted result.  A restricted shortcut
        that drops a component is exact only for trials where that component is redundant."""
        p = self.p
        n = 0
        for cname, ci in sorted(p.classes.items()):
            if not cname.startswith(W):
                continue
            a = ci.methods.get(f"_calc_{which}_restricted")
            b = p.lookup_method(cname, f"_calc_{which}")
            if a is None or b is None or a.is_abstract or b.is_abstract:
                continue
            short = cname[len(W):]
            try:
                ea, eb = self.E(short, f"_calc_{which}_restricted"), self.E(short, f"_calc_{which}")
            except AnalysisError:
                continue
            if ea.result is None or eb.result is None:
                continue
            ca, cb = self._trial_components(ea.result), self._trial_components(eb.result)
            if not cb or not ca:
                continue          # one of the two is a refusal / does not read the trial data at all
            n += 1
            missing = sorted((c for c in cb - ca if (short, c) not in self._RESTRICTED_SKIPS), key=str)
            self.ctx.ob("SIB-2", f"{short}: _calc_{which}_restricted depends on every trial component _calc_{which} does",
                        not missing, f"restricted reads {sorted(ca, key=str)}; unrestricted reads {sorted(cb, key=str)}"
                        + (f"; dropped {missing}" if missing else ""), a)
        if n == 0:
            self.ctx.rep.note(f"SIB-2 (trial components, {which}): no class implements both entry points itself")

    def estimator_sees_the_trial(self, which: str):
        """SIB-2 (dependence form).  <psi_T|O|phi> / <psi_T|phi> and <psi_T|phi> are properties of the same trial
        state: a hand-written energy / force-bias routine depends on every component of wave_data that the overlap of
        the same class and entry point depends on (through the Green's function it builds).  A shortcut that drops the
        trial orbitals from one of them (e.g. a Green's function written for the identity basis) leaves the siblings
        describing different states.  Classes whose estimator differentiates the overlap (wave_function_auto) inherit
        the dependence and are skipped."""
        p = self.p
        n = 0
        for cname, ci in sorted(p.classes.items()):
            if not cname.startswith(W):
                continue
            short = cname[len(W):]
            for suffix in ("", "_restricted"):
                fo = p.lookup_method(cname, f"_calc_overlap{suffix}")
                fm = p.lookup_method(cname, f"_calc_{which}{suffix}")
                if fo is None or fm is None or fo.is_abstract or fm.is_abstract:
                    continue
                if fm.cls in (W + "wave_function_auto", W + "wave_function") or fo.cls == W + "wave_function":
                    continue
                try:
                    eo, em = self.E(short, f"_calc_overlap{suffix}"), self.E(short, f"_calc_{which}{suffix}")
                except AnalysisError:
                    continue
                if eo.result is None or em.result is None:
                    continue
                co, cm = self._trial_components(eo.result), self._trial_components(em.result)
                if not co:
                    continue
                from ..symex import subterms
                if any(x.op == "call" and x.args[0].op == "name" and x.args[0].args[0] in ("jax.jvp", "jax.vjp", "jax.grad")
                       for x in subterms(em.result)):
                    continue
                n += 1
                missing = sorted(co - cm, key=str)
                self.ctx.ob("SIB-2", f"{short}: _calc_{which}{suffix} depends on every trial component _calc_overlap{suffix} does",
                            not missing, f"overlap reads {sorted(co, key=str)}; {which} reads {sorted(cm, key=str)}"
                            + (f"; dropped {missing}" if missing else ""), fm)
        if n == 0:
            self.ctx.rep.note(f"SIB-2 (estimator / overlap trial components, {which}): no hand-written estimator found")

    # ------------------------------------------------------------------ rhf
    def rhf_restricted_vs_unrestricted(self, which: str):
        hyp = {sym("walker_up"): sym("walker"), sym("walker_dn"): sym("walker")}
        a = self.E("rhf", f"_calc_{which}_restricted")
        b = self.E("rhf", f"_calc_{which}")
        self.cmp("SIB-2", f"rhf: _calc_{which}_restricted == _calc_{which} for equal spin blocks",
                 a.result, b.result, b.fi, hyp, what="hypothesis walker_up == walker_dn")

    def exchange_within_one_spin(self):
        """SIB-2 (dependence form): an exchange contraction squares one intermediate against its own transpose
        (x * x.T summed).  For the collinear single-determinant trials (rhf, uhf) the two spin sectors do not exchange:
        the squared intermediate belongs to one spin, i.e. it does not depend on both walker blocks.  (Coulomb terms are
        bilinear in the spin-summed intermediate and are not of this form.)"""
        from ..symex import func_name, match_vmap, mk, strip_wrappers, subterms
        from .match import m_binop
        for cls in ("rhf", "uhf"):
            e = self.E(cls, "_calc_energy")
            found = []

            def transposed_of(a, b) -> bool:
                b = strip_wrappers(b)
                a = strip_wrappers(a)
                if b.op == "attr" and b.args[1] in ("T", "mT") and strip_wrappers(b.args[0]) is a:
                    return True
                if b.op == "call" and (func_name(b) or "").split(".")[-1] in ("swapaxes", "transpose", "matrix_transpose") \
                        and len(b.args) >= 2 and strip_wrappers(b.args[1]) is a:
                    return True
                return False
            for x in subterms(e.result):
                vm = match_vmap(x) if x.op == "call" else None
                if vm is not None and vm[0].op == "closure" and len(vm[2]) == 1:
                    el = mk("vmap_elem", vm[2][0], 0)
                    body = strip_wrappers(self.ev.open_closure(vm[0], [el]))
                    mb = m_binop(body, "*")
                    if mb is not None and (transposed_of(mb[0], mb[1]) or transposed_of(mb[1], mb[0])) and \
                            (strip_wrappers(mb[0]) is el or strip_wrappers(mb[1]) is el):
                        found.append(vm[2][0])
                    continue
                mb = m_binop(x, "*") if x.op == "binop" else None
                if mb is not None and (transposed_of(mb[0], mb[1]) or transposed_of(mb[1], mb[0])):
                    a_ = strip_wrappers(mb[0])
                    found.append(a_ if transposed_of(mb[0], mb[1]) else strip_wrappers(mb[1]))
            if not found:
                self.ctx.rep.note(f"{cls}._calc_energy: no exchange contraction of the form x * x.T found; the one-spin "
                                  f"exchange rule is not applied")
                continue
            mixed = [f for f in found if any(y is sym("walker_up") for y in subterms(f)) and
                     any(y is sym("walker_dn") for y in subterms(f))]
            self.ctx.ob("SIB-2", f"{cls}._calc_energy: each exchange contraction x * x.T squares an intermediate of one spin",
                        not mixed, f"{len(found)} exchange contraction(s)" if not mixed else
                        f"{show(mixed[0], maxdepth=3)[:90]} depends on both walker blocks: its square contains an exchange "
                        f"term between up and down electrons", e.fi)

    # ----------------------------------------------------------- multislater
    def multislater_restricted_vs_unrestricted(self):
        a = self.E("multislater", "_calc_overlap_restricted")
        b = self.E("multislater", "_calc_overlap")
        hyp = {sym("walker_up"): sym("walker"), sym("walker_dn"): sym("walker"),
               key(WD, "ref_det", 1): key(WD, "ref_det", 0), nelec(1): nelec(0)}
        self.cmp("SIB-2", "multislater: _calc_overlap_restricted == _calc_overlap for equal spin blocks",
                 a.result, b.result, b.fi, hyp, frame=a.frame,
                 what="hypothesis walker_up == walker_dn, equal reference strings")

    def multislater_reference_pairing(self):
        """PAIR-1: overlap = overlap_0 * sum of Wick ratios; the ratios come from the Green's function of the
        reference determinant, so overlap_0 and the Green's function must select the same occupied rows of the
        same walker block, and block s must be selected with ref_det[s] / nelec[s]."""
        from ..symex import func_name, match_vmap, mk, strip_wrappers, subterms
        for meth, blocks in (("_calc_overlap", {"walker_up": 0, "walker_dn": 1}), ("_calc_overlap_restricted", {"walker": 0})):
            e = self.E("multislater", meth)
            sel: Dict[str, Dict[str, set]] = {}
            spin_bad = []
            pool = list(subterms(e.result))
            # values a mapped local function / partial application captures are part of the expression
            for x in list(pool):
                vm = match_vmap(x) if x.op == "call" else None
                if vm is not None and vm[0].op == "closure":
                    try:
                        body = self.ev.open_closure(vm[0], [mk("vmap_elem", a_, 0) for a_ in vm[2]])
                    except Exception:
                        continue
                    pool.extend(subterms(body))
            for x in pool:
                if x.op == "call" and (func_name(x) or "").split(".")[-1] in ("det", "inv"):
                    kind = (func_name(x) or "").split(".")[-1]
                    a = strip_wrappers(x.args[1]) if len(x.args) > 1 else None
                    if a is None or a.op != "getitem" or a.args[0].op != "sym" or a.args[0].args[0] not in blocks:
                        continue
                    w = a.args[0].args[0]
                    idx = a.args[1].args[0] if a.args[1].op == "tuple" else a.args[1]
                    sel.setdefault(w, {}).setdefault(kind, set()).add(idx)
                    if meth == "_calc_overlap":
                        s_ = blocks[w]
                        refs = {y.args[1].args[0] for y in subterms(idx) if y.op == "getitem" and y.args[1].op == "const"
                                and y.args[0].op == "getitem" and y.args[0].args[1].op == "const"
                                and y.args[0].args[1].args[0] == "ref_det"}
                        nel = {y.args[1].args[0] for y in subterms(idx) if y.op == "getitem" and y.args[1].op == "const"
                               and y.args[0].op == "attr" and y.args[0].args[1] == "nelec"}
                        if refs - {s_} or nel - {s_}:
                            spin_bad.append(f"{kind}({w}[...]) selects with ref_det{sorted(refs)} / nelec{sorted(nel)}")
            ok = bool(sel) and all(v.get("det") and v.get("det") == v.get("inv") for v in sel.values()) and \
                set(sel) == set(blocks)
            if not ok and (set(sel) != set(blocks) or any(not v.get("det") or not v.get("inv") for v in sel.values())):
                self.ctx.rep.note(f"multislater.{meth}: the det / inv of selected walker rows were not both found for every "
                                  f"walker block ({ {w: sorted(v) for w, v in sel.items()} }); the row pairing is not decided")
                continue
            self.ctx.ob("PAIR-1", f"multislater.{meth}: reference overlap and Green's function select the same occupied rows",
                        ok, "; ".join(f"{w}: det {len(v.get('det', ()))} / inv {len(v.get('inv', ()))} selector(s)"
                                      + ("" if v.get("det") == v.get("inv") else " DIFFERENT") for w, v in sorted(sel.items()))
                        or "no det/inv of selected walker rows found", e.fi)
            if meth == "_calc_overlap":
                self.ctx.ob("PAIR-1", "multislater._calc_overlap: walker block s is selected with ref_det[s] and nelec[s]",
                            not spin_bad and bool(sel), "; ".join(spin_bad) or "spin tags agree", e.fi)

    def auto_helper_mirrors(self, meths):
        """SYM-1 / SIB-2 on the AD helpers of wave_function_auto: the rotated down-spin walker handed to _calc_overlap
        is the mirror image (walker_up -> walker_dn, h1[0] -> h1[1]) of the rotated up-spin walker, and the restricted
        helper rotates its single block the same way."""
        from ..symex import call_parts, strip_wrappers
        plain = Evaluator(self.p)     # no inlining: the final self._calc_overlap(...) call stays a call term
        saved, self.ev = self.ev, plain
        try:
            self._auto_helper_mirrors(meths, plain)
        finally:
            self.ev = saved

    def _auto_helper_mirrors(self, meths, plain):
        from ..symex import call_parts, strip_wrappers
        for meth in meths:
            e = evaluate(self.p, plain, W + "wave_function_auto", meth)
            r = strip_wrappers(e.result) if e.result is not None else None
            if r is None:
                raise AnalysisError(f"wave_function_auto.{meth}: no value returned")
            if not (r.op == "call" and r.args[0].op == "attr" and r.args[0].args[1] == "_calc_overlap"):
                raise AnalysisError(f"wave_function_auto.{meth}: does not end in self._calc_overlap(up, dn, wave_data)")
            b_ = plain.call_binding(r, e.frame, cls=W + "wave_function_auto")
            if b_ is None or "walker_up" not in b_ or "walker_dn" not in b_:
                self.ctx.rep.note(f"wave_function_auto.{meth}: the final _calc_overlap call does not bind to "
                                  f"(walker_up, walker_dn, ..); the mirror rule does not apply")
                continue
            pos = [b_["walker_up"], b_["walker_dn"]]
            h1 = sym("h1")
            sw = swap_map([(sym("walker_up"), sym("walker_dn")), (getitem(h1, const(0)), getitem(h1, const(1)))])
            self.cmp("SYM-1", f"wave_function_auto.{meth}: the rotated down-spin walker mirrors the rotated up-spin one",
                     pos[0], pos[1], e.fi, None, hyp_b=sw, what="up-spin argument with up <-> dn == down-spin argument")
            er = evaluate(self.p, plain, W + "wave_function_auto", meth + "_restricted")
            rr = strip_wrappers(er.result)
            if not (rr.op == "call" and rr.args[0].op == "attr" and rr.args[0].args[1] == "_calc_overlap_restricted"):
                raise AnalysisError(f"wave_function_auto.{meth}_restricted: does not end in _calc_overlap_restricted")
            hyp_u = {sym("walker_up"): sym("walker"), getitem(h1, const(0)): h1}
            br_ = plain.call_binding(rr, er.frame, cls=W + "wave_function_auto")
            if br_ is None or "walker" not in br_:
                self.ctx.rep.note(f"wave_function_auto.{meth}_restricted: the final call does not bind a `walker`; "
                                  f"the same-rotation rule does not apply")
                continue
            self.cmp("SIB-2", f"wave_function_auto.{meth}: same rotation as {meth}_restricted",
                     br_["walker"], pos[0], e.fi, None, hyp_b=hyp_u,
                     what="walker_up -> walker, h1[0] -> h1")

    def force_bias_is_coulomb_trace(self):
        """SIB-2 inside one class: <L_g> = tr(G L_g) appears twice, as the force bias and as the Coulomb trace whose
        square enters the two-body energy; the two hand-written contractions must be the same function of walker and
        integrals (times 2 where one spatial Green's function stands for both spins)."""
        from ..symex import func_name, match_vmap, strip_wrappers, subterms
        from .gvn import ZERO, c_add, c_mul, compare_forms
        table = (("ghf", "_calc_force_bias", "_calc_energy", 1), ("uhf", "_calc_force_bias", "_calc_energy", 1),
                 ("rhf", "_calc_force_bias_restricted", "_calc_energy_restricted", 2))
        for cls, fbm, enm, factor in table:
            fb, en = self.E(cls, fbm), self.E(cls, enm)
            traces = []
            for x in subterms(en.result):
                vm = match_vmap(x) if x.op == "call" else None
                if vm is not None and vm[0].op == "name" and vm[0].args[0].split(".")[-1] == "trace" and x not in traces:
                    traces.append(x)
            if not traces:
                for x in subterms(en.result):
                    if x.op == "call" and (func_name(x) or "").split(".")[-1] == "trace" and x not in traces:
                        traces.append(x)
            if not traces:
                self.ctx.rep.note(f"{cls}.{enm}: no Coulomb trace found in the energy; the force-bias sibling rule does not apply")
                continue
            g = GVN(self.ev)
            try:
                a = g.number(fb.result)
                tot = {}
                for t in traces:
                    for k_, v in g.number(t).items():
                        tot[k_] = c_add(tot.get(k_, ZERO), v)
            except TooBig:
                raise AnalysisError(f"{cls}: value numbering exceeded its budget")
            from fractions import Fraction
            scaled = {k_: c_mul(v, (Fraction(factor), Fraction(0))) for k_, v in tot.items()}
            verdict = compare_forms(g, a, scaled)
            ok = verdict != "differ"
            if verdict == "undecided":
                self.ctx.rep.count("undecided_comparisons")
            self.ctx.ob("SIB-2", f"{cls}.{fbm} == {factor} x (sum of the Coulomb traces of {enm})", ok,
                        ("equal value numbers" if verdict == "equal" else "undecided: written with different operations; no claim") if ok else
                        f"force bias {g.describe(a)[:160]}  vs  energy's traces {g.describe(scaled)[:160]}", fb.fi)

    def noci_trans_rdm1_symmetry(self):
        e = self.E("noci", "_get_trans_rdm1_single_det")
        sw = swap_map([(sym("sd_0_up"), sym("sd_0_dn")), (sym("sd_1_up"), sym("sd_1_dn")), (nelec(0), nelec(1))])
        r = e.result
        c0, c1 = getitem(r, const(0)), getitem(r, const(1))
        if r is not None and r.op == "dict" and len(r.args) == 4 and all(k_.op == "const" for k_ in r.args[0::2]):
            # the two blocks returned under string keys: the exchange is an involution, so their order is immaterial
            c0, c1 = r.args[1], r.args[3]
        elif r is not None and r.op == "record" and len(r.args) == 3:
            c0, c1 = r.args[1], r.args[2]
        self.cmp("SYM-1", "noci._get_trans_rdm1_single_det: the down-spin transition density mirrors the up-spin one",
                 c0, c1, e.fi, None, hyp_b=sw,
                 what="component 0 with up <-> dn == component 1")

    def noci_rdm1_weights(self):
        """SYM-1 (dependence form).  <psi|a+_p a_q|psi> of a NOCI state weights every pair of determinants with
        c_h c_g <h|g>, and <h|g> is the product of the up *and* the down overlap: each spin block of the 1-RDM
        therefore depends on the determinants of both spin sectors."""
        from ..symex import strip_wrappers, subterms
        e = self.E("noci", "_calc_rdm1")
        r = strip_wrappers(e.result) if e.result is not None else None
        if r is not None and r.op == "call" and r.args:
            from ..symex import call_parts
            a_ = call_parts(r)[1]
            r = strip_wrappers(a_[0]) if a_ else r
        if r is None or r.op not in ("list", "tuple") or len(r.args) != 2:
            self.ctx.rep.note("noci._calc_rdm1: result is not a two-block display; spin-dependence rule not applicable")
            return
        dets = key(WD, "ci_coeffs_dets", 1)
        bad = []
        seen = []
        for s_ in (0, 1):
            used = {k_ for k_ in (0, 1) if any(y is getitem(dets, const(k_)) for y in subterms(r.args[s_]))}
            seen.append(sorted(used))
            if used and (1 - s_) not in used:
                bad.append(f"block {s_} reads only the spin-{s_} determinants")
        if not any(seen):
            self.ctx.rep.note("noci._calc_rdm1: determinant blocks not identified; spin-dependence rule not applicable")
            return
        self.ctx.ob("SYM-1", "noci._calc_rdm1: each spin block is weighted with the full (up x down) pair overlaps",
                    not bad, "; ".join(bad) or f"blocks read determinant sectors {seen}", e.fi)

    # ------------------------------------------------------ CI flavours (C01)
    def ci_flavours_overlap(self):
        a = self.E("cisd", "_calc_overlap_restricted")
        b = self.E("CISD", "_calc_overlap_restricted")
        self.cmp("SIB-2", "cisd._calc_overlap_restricted == CISD._calc_overlap_restricted", a.result,
                 b.result, a.fi)
        a = self.E("ucisd", "_calc_overlap")
        b = self.E("UCISD", "_calc_overlap")
        self.cmp("SIB-2", "ucisd._calc_overlap == UCISD._calc_overlap", a.result, b.result, a.fi)

    def cisd_overlap_ratio(self):
        fb = self.E("cisd", "_calc_force_bias_restricted")
        en = self.E("cisd", "_calc_energy_restricted")
        ov = self.E("cisd", "_calc_overlap_restricted")
        enf = self.E("cisd_faster", "_calc_energy_restricted")
        r_fb, r_en, r_enf = ratio_denominator(fb.result), ratio_denominator(en.result), ratio_denominator(enf.result)
        self.cmp("SIB-2", "cisd: overlap ratio in the force bias == overlap ratio in the energy", r_fb, r_en, fb.fi, optional=True)
        self.cmp("SIB-2", "cisd_faster: overlap ratio in the energy == cisd's", r_enf, r_en, enf.fi, optional=True)
        hyp = {shape1(sym("walker")): nelec(0)}
        self.cmp("SIB-2", "cisd: (1 + singles + doubles) of the overlap == overlap ratio of the energy",
                 sum_factor(ov.result), r_en, ov.fi, hyp, what="walker has nelec[0] columns", optional=True)

    def ucisd_overlap_ratio(self):
        fb = self.E("ucisd", "_calc_force_bias")
        en = self.E("ucisd", "_calc_energy")
        ov = self.E("ucisd", "_calc_overlap")
        r_fb, r_en = ratio_denominator(fb.result), ratio_denominator(en.result)
        self.cmp("SIB-2", "ucisd: overlap ratio in the force bias == overlap ratio in the energy", r_fb, r_en, fb.fi, optional=True)
        wdb = beta_walker(ov)
        hyp = {shape1(sym("walker_up")): nelec(0)}
        if wdb is not None:
            hyp[shape1(wdb)] = nelec(1)
        self.cmp("SIB-2", "ucisd: (1 + singles + doubles) of the overlap == overlap ratio of the energy",
                 sum_factor(ov.result), r_en, ov.fi, hyp, what="walkers have nelec[s] columns", optional=True)

    def noci_total_overlap(self):
        no = self.E("noci", "_calc_overlap")
        nf = self.E("noci", "_calc_force_bias")
        ne = self.E("noci", "_calc_energy")
        self.cmp("SIB-2", "noci: total overlap in the force bias == _calc_overlap", no.result,
                 ratio_denominator(nf.result), nf.fi, frame=no.frame, optional=True)
        self.cmp("SIB-2", "noci: total overlap in the energy == _calc_overlap", no.result,
                 ratio_denominator(ne.result), ne.fi, frame=no.frame, optional=True)

    # ------------------------------------------------------- C02 energy copies
    def cisd_vs_faster(self):
        """cisd_faster replaces the per-Cholesky-vector scan of cisd by batched contractions.  An accumulating scan of
        scalar contractions is the same contraction with the scanned axis summed (GVN-L rewrites it so), hence the two
        energies must receive the same value number as wholes -- no variable names involved."""
        en = self.E("cisd", "_calc_energy_restricted")
        enf = self.E("cisd_faster", "_calc_energy_restricted")
        self.cmp("SIB-2", "cisd_faster._calc_energy_restricted == cisd._calc_energy_restricted", en.result, enf.result,
                 enf.fi, what="scan over Cholesky vectors == batched contraction")
        self.cmp("SIB-2", "cisd_faster: numerator of the energy == cisd's", _numerator(en.result), _numerator(enf.result),
                 enf.fi, optional=True)

    def helper_in_caller_terms(self, cls: str, helper: str, caller: str) -> Optional[T]:
        """The result of the private per-determinant helper with its parameters replaced by what `caller` passes for
        them (through vmap or directly; a record argument is taken apart into its fields).  The helper's parameter
        list is private to the class -- its order, its names and whether several arrays travel as one record are free
        -- so the roles of its inputs are read off the one place that fixes them: the call.  None: no such call."""
        from ..symex import substitute
        b = self.helper_call_binding(cls, helper, caller)
        if b is None:
            return None
        h = self.E(cls, helper)
        sub: Dict[T, T] = {}
        for pname, actual in b.items():
            P = sym(pname)
            sub[P] = actual
            if actual.op == "record":
                names = self.ev.record_fields(actual.args[0]) or []
                for i, (fname, v) in enumerate(zip(names, actual.args[1:])):
                    sub[mk("attr", P, fname)] = v
                    sub[getitem(P, const(i))] = v
        return substitute(h.result, sub)

    def helper_call_binding(self, cls: str, helper: str, caller: str) -> Optional[Dict[str, T]]:
        """{parameter of the private helper: the term `caller` passes for it} at the (vmapped or direct) call of
        self.<helper> inside `caller`; None when there is no such call"""
        from ..model import bind_call
        from ..symex import call_parts, func_name, match_vmap, subterms, transparent
        h, c = self.E(cls, helper), self.E(cls, caller)
        site = None
        for x in subterms(c.result):
            if x.op != "call":
                continue
            vm = match_vmap(x)
            f, pos, kws = (vm[0], list(vm[2]), {}) if vm is not None else (transparent(call_parts(x)[0]), list(call_parts(x)[1]), call_parts(x)[2])
            while f.op == "call" and func_name(f) == "jax.vmap" and call_parts(f)[1]:
                f = transparent(call_parts(f)[1][0])
            if f.op == "attr" and f.args[1] == helper and f.args[0] is sym("self"):
                site = (pos, kws)
                break
        if site is None:
            return None
        pos, kws = site
        ok, _, mapping = bind_call(h.fi, len(pos), list(kws), True)
        if not ok:
            return None
        return {pname: (pos[m[1]] if m[0] == "pos" else kws[m[1]]) for pname, m in mapping.items()}

    def noci_vs_uhf(self):
        nd = self.E("noci", "_calc_energy_single_det")
        uh = self.E("uhf", "_calc_energy")
        r = self.helper_in_caller_terms("noci", "_calc_energy_single_det", "_calc_energy")
        if r is None:
            self.ctx.rep.note("noci._calc_energy: the per-determinant energy call was not identified; the uhf sibling rule does not apply")
            return
        dets = key(WD, "ci_coeffs_dets", 1)
        sl = lambda t, n: getitem(t, mk("tuple", mk("slice", NONE, NONE, NONE), mk("slice", NONE, n, NONE)))
        hyp_n = {sl(getitem(dets, const(0)), nelec(0)): sym("§mo_up"), sl(getitem(dets, const(1)), nelec(1)): sym("§mo_dn")}
        hyp_u = {key(WD, "mo_coeff", 0): sym("§mo_up"), key(WD, "mo_coeff", 1): sym("§mo_dn")}
        self.cmp("SIB-2", "noci._calc_energy_single_det == uhf._calc_energy under parameter correspondence",
                 r, uh.result, nd.fi, hyp_n, hyp_b=hyp_u, ignore_conj=True,
                 what="real NOCI determinants; the helper's parameters as noci._calc_energy passes them")

    # ------------------------------------------------------ spin-exchange SYM-1
    def uhf_spin_symmetry(self, meth: str):
        u = self.E("uhf", meth)
        sw = swap_map([(sym("walker_up"), sym("walker_dn")), (key(HD, "rot_h1", 0), key(HD, "rot_h1", 1)),
                       (key(HD, "rot_chol", 0), key(HD, "rot_chol", 1)),
                       (key(WD, "mo_coeff", 0), key(WD, "mo_coeff", 1))])
        self.cmp("SYM-1", f"uhf.{meth}: invariant under exchanging the spin labels", u.result, u.result, u.fi,
                 None, hyp_b=sw, what="up <-> dn in walkers, orbitals and rotated integrals")

    def noci_spin_symmetry(self):
        dets = key(WD, "ci_coeffs_dets", 1)
        sw = swap_map([(sym("walker_up"), sym("walker_dn")), (getitem(dets, const(0)), getitem(dets, const(1))),
                       (key(HD, "rot_h1", 0), key(HD, "rot_h1", 1)), (key(HD, "rot_chol", 0), key(HD, "rot_chol", 1)),
                       (nelec(0), nelec(1))])
        for helper, caller in (("_calc_energy_single_det", "_calc_energy"), ("_calc_overlap_single_det", "_calc_overlap")):
            nd = self.E("noci", helper)
            r = self.helper_in_caller_terms("noci", helper, caller)
            if r is None:
                self.ctx.rep.note(f"noci.{caller}: the call of {helper} was not identified; the spin-exchange rule does not apply")
                continue
            self.cmp("SYM-1", f"noci.{helper}: invariant under exchanging the spin labels",
                     r, r, nd.fi, None, hyp_b=sw, what=f"inputs as noci.{caller} passes them")

    def ucisd_spin_symmetry(self, meth: str):
        ue = self.E("ucisd", meth)
        pairs: List[Tuple[T, T]] = []
        extra_a: Dict[T, T] = {}
        extra_b: Dict[T, T] = {}
        wb = beta_walker(ue)
        self.ctx.ob("SYM-1", f"ucisd.{meth}: the down walker enters through the beta MO basis, mo_coeff[1].T . walker_dn",
                    wb is not None, "found" if wb is not None else
                    "no term mo_coeff[1].T . walker_dn[...] in the result: the beta sector is not rotated with the beta orbitals",
                    ue.fi)
        if wb is None:
            return
        # the beta sector is written in the beta MO basis: every alpha input has a named beta partner
        pairs.append((sym("walker_up"), wb))
        pairs.append((nelec(0), nelec(1)))
        pairs.append((key(WD, "ci1A"), key(WD, "ci1B")))
        pairs.append((key(WD, "ci2AA"), key(WD, "ci2BB")))
        if meth != "_calc_overlap":
            pairs.append((key(HD, "chol"), key(HD, "chol_b")))
            if meth == "_calc_energy":
                h1a = only_built_from(ue.result, [key(HD, "h1", 0), key(HD, "h1", 1)])
                if h1a is None:
                    raise AnalysisError("ucisd._calc_energy: the alpha one-body matrix built from h1[0], h1[1] was not found")
                # the alpha one-body matrix is a combination of inputs: abstract it to one symbol in both copies
                H = sym("§h1_alpha")
                extra_a[h1a] = H
                extra_b[h1a] = key(HD, "h1_b")
                extra_b[key(HD, "h1_b")] = H
                pairs.append((key(HD, "lci1_a"), key(HD, "lci1_b")))
        m = swap_map(pairs)
        ab = key(WD, "ci2AB")
        m[ab] = call(name("jax.numpy.transpose"), ab, mk("tuple", const(2), const(3), const(0), const(1)))
        m.update(extra_b)
        self.cmp("SYM-1", f"ucisd.{meth}: invariant under exchanging the spin labels a <-> b", ue.result,
                 ue.result, ue.fi, extra_a or None, hyp_b=m,
                 what="a <-> b in Green's functions, integrals, amplitudes; ci2AB transposed")


def restricted_default(ctx, which: str):
    """wave_function._calc_<which>_restricted delegates to _calc_<which> with the first
    nelec[0] columns as the up block and the first nelec[1] columns as the down block."""
    from ..symex import Evaluator, call_parts, strip_wrappers

    p = ctx.p
    fi = p.func(f"wavefunctions.wave_function._calc_{which}_restricted")
    ev = Evaluator(p)
    fr = ev.eval_function(fi)
    R = strip_wrappers(ev.result(fr))
    ok, why = False, "default restricted entry point does not delegate to the unrestricted one"
    if R.op == "call" and R.args[0].op == "attr" and R.args[0].args[1] == f"_calc_{which}":
        # arguments by the parameter they bind to (walker_up / walker_dn are the names of the class's internal API;
        # where they stand in the signature is not fixed)
        b = ev.call_binding(R, fr, cls="wavefunctions.wave_function")
        w = sym("walker")
        sl = lambda n: getitem(w, mk("tuple", mk("slice", NONE, NONE, NONE), mk("slice", NONE, n, NONE)))
        rest = [prm.name for prm in fi.params if prm.name not in ("self", "walker")]
        if b is None or "walker_up" not in b or "walker_dn" not in b:
            ctx.rep.note(f"wave_function._calc_{which}_restricted: the delegated call does not bind to (walker_up, walker_dn, ..); "
                         f"the spin-block rule does not apply")
            return
        ok = b["walker_up"] is sl(nelec(0)) and b["walker_dn"] is sl(nelec(1)) and \
            all(b.get(n_) is sym(n_) for n_ in rest)
        why = "up = walker[:, :nelec[0]], dn = walker[:, :nelec[1]], remaining arguments forwarded" if ok \
            else f"delegates with {[(k_, show(x, maxdepth=3)) for k_, x in b.items()]}"
    ctx.ob("PAIR-1", f"wave_function._calc_{which}_restricted: spin blocks sliced with their own electron count",
           ok, why, fi)
