#!/venv/bin/python
"""Re-evaluate every kept seeded / behaviour-preserving change against all 20 checks, in memory and in parallel.

usage: tools/overlay_rerun.py seeded|benign [id-prefix ...]   [REPO=<clean checkout of the pinned commit>, default /repo]

Same verdicts as tools/seed_rerun.py / tools/benign_rerun.py (which apply each patch to the working tree with
`git apply`, run the 20 check commands and undo), obtained without touching any working tree: each patch is applied with
`git apply` inside a throw-away copy of the package under a temporary directory, the patched files are handed to the
analyser as an in-memory overlay (the mechanism of the self-test), and the (patch, property) pairs are spread over all
cores.  Rewrites <kind>/<id>/result.json.
"""
import glob, json, os, shutil, subprocess, sys, tempfile
from concurrent.futures import ProcessPoolExecutor

VERIF = os.path.dirname(os.path.dirname(os.path.abspath(__file__)))
sys.path.insert(0, VERIF)
REPO = os.environ.get("REPO", "/repo")
IDS = [f"C{i:02d}" for i in range(1, 21)]


def overlay_of(patch: str):
    tmp = tempfile.mkdtemp(prefix="ovr_")
    try:
        shutil.copytree(os.path.join(REPO, "ad_afqmc"), os.path.join(tmp, "ad_afqmc"))
        before = {f: open(f).read() for f in glob.glob(os.path.join(tmp, "ad_afqmc", "*.py"))}
        r = subprocess.run(["git", "apply", "--unsafe-paths", f"--directory={tmp}", os.path.abspath(patch)], cwd=tmp,
                           capture_output=True, text=True)
        if r.returncode != 0:
            r = subprocess.run(["patch", "-p1", "-s", "-i", os.path.abspath(patch)], cwd=tmp, capture_output=True, text=True)
            if r.returncode != 0:
                return None
        ov = {}
        for f in glob.glob(os.path.join(tmp, "ad_afqmc", "*.py")):
            src = open(f).read()
            if before.get(f) != src:
                ov[os.path.relpath(f, tmp)] = src
        return ov
    finally:
        shutil.rmtree(tmp, ignore_errors=True)


def task(args):
    sid, pid, ov = args
    from afqmc_lint.model import AnalysisError
    from afqmc_lint.runner import analyse
    try:
        rep = analyse(pid, REPO, ov, "quick")
        v = rep.unlisted()          # known findings (printed as KNOWN-FINDING, exit 0) are not alarms
        if not v:
            return sid, pid, 0, [], ""
        rules = []
        for o in v:
            k = o.key()
            r_ = k.split(" / ")[0] if " / " in k else k.split()[0]
            if r_ not in rules:
                rules.append(r_)
        return sid, pid, 1, rules, v[0].key()[:300]
    except AnalysisError as e:
        return sid, pid, 2, [], ("ANALYSIS-ERROR " + str(e))[:300]
    except Exception as e:  # noqa
        return sid, pid, 2, [], ("CRASH " + repr(e))[:300]


def main():
    kind = sys.argv[1]
    want = sys.argv[2:]
    dirs = [d for d in sorted(glob.glob(os.path.join(os.environ.get("KIND_ROOT", os.path.join(VERIF, kind)), "*")))
            if not want or any(os.path.basename(d).startswith(w) for w in want)]
    tasks, noapply = [], []
    for d in dirs:
        sid = os.path.basename(d)
        ov = overlay_of(os.path.join(d, "patch.diff"))
        if ov is None:
            noapply.append(sid)
            continue
        for pid in IDS:
            tasks.append((sid, pid, ov))
    res = {}
    with ProcessPoolExecutor(int(os.environ.get("JOBS", "16"))) as ex:
        for sid, pid, rc, rules, first in ex.map(task, tasks, chunksize=4):
            if rc:
                res.setdefault(sid, {})[pid] = {"rc": rc, "rules": rules, "first": first}
            else:
                res.setdefault(sid, {})
    tot = det = own = bad = 0
    for d in dirs:
        sid = os.path.basename(d)
        if sid in noapply:
            print(f"{sid:8s} PATCH DOES NOT APPLY")
            continue
        by = res.get(sid, {})
        tot += 1
        if kind == "seeded":
            target = sid.split("-")[0]
            viol = {p: v for p, v in by.items() if v["rc"] == 1}
            status = "reported" if viol else ("analysis-error only" if by else "not reported")
            json.dump({"detected_by": by, "status": status, "target_reports": target in viol},
                      open(os.path.join(d, "result.json"), "w"), indent=1)
            det += bool(viol)
            own += target in viol
            print(f"{sid:8s} {status:20s} " + " ".join(f"{p}:{'/'.join(v['rules']) or 'rc2'}" for p, v in sorted(by.items())))
        else:
            json.dump({"alarms": {p: {"rc": v["rc"], "first": v["first"][:260]} for p, v in by.items()}, "silent": not by},
                      open(os.path.join(d, "result.json"), "w"), indent=1)
            bad += bool(by)
            if by:
                print(f"{sid:8s} " + " | ".join(f"{p} rc={v['rc']} {v['first'][:150]}" for p, v in sorted(by.items())))
    if kind == "seeded":
        print(f"{det}/{tot} reported by some check (exit 1); {own}/{tot} by the check of the property they were written against")
    else:
        print(f"{tot - bad}/{tot} behaviour-preserving changes leave all 20 checks silent")
    if noapply:
        print("patches that do not apply:", noapply)


if __name__ == "__main__":
    main()
