#!/venv/bin/python
"""Regenerate /verif/MANIFEST.json from the property modules that exist.

Each afqmc_lint/props/cXX.py may define
  LEVEL_TEXT, LEVEL_NOTE, TECHNIQUE, DESIGN_REF
A property without a module is listed under not_applicable with the reason
given in NOT_APPLICABLE below."""
import importlib, json, os, sys
here = os.path.dirname(os.path.dirname(os.path.abspath(__file__)))
sys.path.insert(0, here)
props = [json.loads(l) for l in open(os.path.join(here, "properties.jsonl"))]
NOT_APPLICABLE = {}
checks, na, served = [], [], []
for p in props:
    pid = p["id"]
    try:
        m = importlib.import_module(f"afqmc_lint.props.{pid.lower()}")
    except ModuleNotFoundError:
        na.append({"property_id": pid, "reason": NOT_APPLICABLE.get(
            pid, "check not built yet (structural residue identified in DESIGN.md section 4); the "
                 "numerical core is outside static analysis")})
        continue
    if getattr(m, "NOT_APPLICABLE", None):
        na.append({"property_id": pid, "reason": m.NOT_APPLICABLE})
        continue
    served.append(pid)
    checks.append({
        "property_id": pid,
        "quick_cmd": f"./check {pid} --tier quick",
        "thorough_cmd": f"./check {pid} --tier thorough",
        "evidence_file": f"/verif/evidence/{pid}.json",
        "replay_cmd_template": f"./check {pid} --replay {{path}}",
        "engine": "afqmc_lint",
        "level_claimed": {
            "category": "other",
            "text": getattr(m, "LEVEL_TEXT", None) or (
                "static analysis deciding the structural clauses of the property (necessary "
                "conditions visible in the shape of the code, on every site / path / receiver class); "
                + m.EXPLANATION + " Not decided: " + m.NOT_DECIDED),
            "design_ref": getattr(m, "DESIGN_REF", f"DESIGN.md section 4, {pid}"),
        },
        "level_note": getattr(m, "LEVEL_NOTE", "trusted base: CPython ast; the program model of "
                              "afqmc_lint (MRO, dataclass, jit/vmap/scan binding); a silent check means no "
                              "structural necessary condition is broken, not numerical correctness"),
        "technique": getattr(m, "TECHNIQUE", "static analysis (AST / def-use value graph rules)"),
    })
manifest = {
    "version": 1,
    "setup_cmd": "true",
    "hooks": {
        "guard": "ANKIT76_AD_AFQMC_VERIF",
        "enable": "none needed: static analysis reads /repo sources; no instrumentation exists",
        "baseline_off_cmd": "cd /repo && /venv/bin/python -m pytest -ra -q -p no:cacheprovider --timeout=900 --continue-on-collection-errors",
        "source_commits": [],
        "add_only": True,
    },
    "engines": [{
        "name": "afqmc_lint", "path": "/verif/afqmc_lint", "serves_properties": served,
        "kind_free_text": "pure-stdlib ast-based static analyser specific to ad_afqmc: resolved program "
                          "model, hash-consed def-use value graph, rule families BIND/KEYS/TS/GUARD/PAIR/"
                          "WMEAN/COUNT/SIB/GVN-L/KIND/LAT/MPI/PRNG (DESIGN.md section 2)"}],
    "checks": checks,
    "not_applicable": na,
    "notes": "Technique family: static analysis only; nothing under /repo is imported or executed by a "
             "check. Exit codes: 0 held, 1 violation (VIOLATION line), 2 analysis error (ANALYSIS-ERROR "
             "line). thorough = quick + self-test on in-memory mutants (afqmc_lint/mutants/*.json). "
             "known_findings.json lists one recorded, unrepaired defect of the repository (D8: C09 / GUARD-3, the six "
             "Green's-function updates of the two fast CPMC step functions; DESIGN.md 6 and 9.3): the C09 check prints one "
             "KNOWN-FINDING line per listed step function and exits 0; the same rule at any other construct is a VIOLATION.",
}
json.dump(manifest, open(os.path.join(here, "MANIFEST.json"), "w"), indent=1)
print("claimed:", served, "| not_applicable:", [x["property_id"] for x in na])
