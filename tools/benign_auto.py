#!/venv/bin/python
"""Systematic behaviour-preserving transformations of the whole package, applied as in-memory overlays, against
every check.  Any obligation that fails (or any analysis error) under one of them is a false alarm / robustness
defect of the machinery, never of the repository.

  reformat : every module re-emitted with ast.unparse (layout, comments, line numbers change)
  rename   : every local variable of every function renamed  x -> x_r  (parameters, attributes, globals untouched)
  both     : rename + reformat

usage: tools/benign_auto.py [reformat|rename|both] [Cxx ...]
"""
from __future__ import annotations

import ast
import glob
import os
import sys
from concurrent.futures import ProcessPoolExecutor

VERIF = os.path.dirname(os.path.dirname(os.path.abspath(__file__)))
sys.path.insert(0, VERIF)
os.chdir(VERIF)
REPO = "/repo"


class Renamer(ast.NodeTransformer):
    """Rename the locals of one function (nested functions included unless they rebind the name)."""

    def __init__(self, mapping):
        self.mapping = mapping

    def visit_Name(self, node):
        if node.id in self.mapping:
            return ast.copy_location(ast.Name(id=self.mapping[node.id], ctx=node.ctx), node)
        return node


def own_locals(fn) -> set:
    """Names bound by assignment / for / with / comprehension inside fn (not in nested defs), minus parameters."""
    params = {a.arg for a in fn.args.args + fn.args.kwonlyargs + fn.args.posonlyargs}
    if fn.args.vararg:
        params.add(fn.args.vararg.arg)
    if fn.args.kwarg:
        params.add(fn.args.kwarg.arg)
    bound, banned = set(), set(params)

    def walk(n, top):
        for ch in ast.iter_child_nodes(n):
            if isinstance(ch, (ast.FunctionDef, ast.AsyncFunctionDef, ast.Lambda, ast.ClassDef)):
                # names rebound inside a nested scope must not be renamed at all (shadowing)
                if isinstance(ch, (ast.FunctionDef, ast.AsyncFunctionDef)):
                    banned.add(ch.name)
                    inner = ch.args
                elif isinstance(ch, ast.Lambda):
                    inner = ch.args
                else:
                    inner = None
                if inner is not None:
                    for a in inner.args + inner.kwonlyargs + inner.posonlyargs:
                        banned.add(a.arg)
                for x in ast.walk(ch):
                    if isinstance(x, ast.Name) and isinstance(x.ctx, ast.Store):
                        banned.add(x.id)
                    if isinstance(x, (ast.Global, ast.Nonlocal)):
                        banned.update(x.names)
                continue
            if isinstance(ch, (ast.Global, ast.Nonlocal)):
                banned.update(ch.names)
            if isinstance(ch, ast.Name) and isinstance(ch.ctx, (ast.Store, ast.Del)):
                bound.add(ch.id)
            if isinstance(ch, (ast.Import, ast.ImportFrom)):
                for al in ch.names:
                    banned.add((al.asname or al.name).split(".")[0])
            walk(ch, False)

    walk(fn, True)
    return {b for b in bound - banned if not b.startswith("__")}


def rename_module(src: str) -> str:
    tree = ast.parse(src)
    for node in ast.walk(tree):
        if isinstance(node, (ast.FunctionDef, ast.AsyncFunctionDef)):
            # only outermost functions / methods: nested ones are handled through their parent
            pass
    def top_functions(n):
        for ch in ast.iter_child_nodes(n):
            if isinstance(ch, (ast.FunctionDef, ast.AsyncFunctionDef)):
                yield ch
            elif isinstance(ch, ast.ClassDef):
                yield from top_functions(ch)
    for fn in top_functions(tree):
        loc = own_locals(fn)
        if loc:
            Renamer({x: x + "_r" for x in loc}).visit(fn)
    ast.fix_missing_locations(tree)
    return ast.unparse(tree) + "\n"


def overlays(kind: str):
    ov = {}
    for path in sorted(glob.glob(os.path.join(REPO, "ad_afqmc", "*.py"))):
        src = open(path).read()
        rel = os.path.relpath(path, REPO)
        if kind == "reformat":
            new = ast.unparse(ast.parse(src)) + "\n"
        elif kind == "rename":
            new = rename_module(src)
        else:
            new = rename_module(src)
        compile(new, rel, "exec")
        ov[rel] = new
    return ov


_OV = {}


def run_one(args):
    kind, pid = args
    from afqmc_lint.model import AnalysisError
    from afqmc_lint.runner import analyse
    try:
        if kind not in _OV:
            _OV[kind] = overlays(kind)
        rep = analyse(pid, REPO, _OV[kind], "quick")
        bad = [o.key() for o in rep.violations]
        return pid, "violations" if bad else "ok", bad[:6], len(rep.obligations)
    except AnalysisError as e:
        return pid, "analysis-error", [str(e)[:300]], 0
    except Exception as e:  # noqa
        import traceback
        return pid, "crash", [traceback.format_exc(limit=3)[-300:].replace("\n", " | ")], 0


def main():
    kinds = [a for a in sys.argv[1:] if a in ("reformat", "rename", "both")] or ["reformat", "rename"]
    pids = [a for a in sys.argv[1:] if a.upper().startswith("C") and a[1:].isdigit()] or [f"C{i:02d}" for i in range(1, 21)]
    rc = 0
    for kind in kinds:
        with ProcessPoolExecutor(10) as ex:
            res = list(ex.map(run_one, [(kind, p.upper()) for p in pids]))
        for pid, verdict, detail, n in res:
            if verdict != "ok":
                rc = 1
                print(f"[{kind}] {pid} {verdict}")
                for d in detail:
                    print("     ", d[:300])
        print(f"[{kind}] {sum(1 for r in res if r[1] == 'ok')}/{len(res)} checks silent")
    return rc


if __name__ == "__main__":
    sys.exit(main())
