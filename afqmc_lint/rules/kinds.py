"""KIND -- axis-kind (dimension-type) inference over value-graph terms.

The abstract value of an expression is a tuple of axis kinds or None (unknown, which
silences every check that would need it and is counted).  Kinds used:
  'G' Cholesky index, 'S' spin, 'F:<b>' flattened O x O in basis b, 'O:<b>' orbital in
  basis b ('O' = the working basis), 'Oo'/'Ov' occupied / virtual part of 'O',
  'E', 'E:0', 'E:1' electron index (per spin), 'SO'/'ES' GHF spin-orbital / electron,
  'W' walker, 'D' determinant.
A *violation* is a contraction / addition / store whose participating kinds are all
known and do not unify.  Nothing is evaluated numerically.
"""

from __future__ import annotations

from typing import Dict, List, Optional, Tuple

from ..symex import (T, Evaluator, array_fn, call_parts, const, func_name, getitem, is_const,
                     match_vmap, mk, show, strip_wrappers, sym)

Kind = Optional[Tuple[str, ...]]


class KindEngine:
    def __init__(self, ev: Evaluator, seeds: Dict[T, Tuple[str, ...]], norb_terms=(), nocc_terms=None):
        self.ev = ev
        self.seeds = dict(seeds)
        self.memo: Dict[int, Kind] = {}
        self.violations: List[Tuple[T, str]] = []
        self.typed = 0
        self.top = 0
        self.norb_terms = list(norb_terms)      # terms equal to the number of orbitals
        self.nocc_terms = dict(nocc_terms or {})  # term -> 'Oo' split label e.g. {'self.nelec[0]': ...}
        self.checked_sites = 0

    def bad(self, t: T, msg: str):
        self.violations.append((t, msg))

    def k(self, t: T) -> Kind:
        r = self.memo.get(t.uid, "?")
        if r != "?":
            return r
        r = self._k(t)
        self.memo[t.uid] = r
        if r is None:
            self.top += 1
        else:
            self.typed += 1
        return r

    # ------------------------------------------------------------------
    def _is_norb(self, t: T) -> bool:
        return any(t is n for n in self.norb_terms)

    def _k(self, t: T) -> Kind:
        if t in self.seeds:
            return self.seeds[t]
        s = strip_wrappers(t)
        if s is not t:
            return self.k(s)
        op = t.op
        if op == "attr":
            base, nm = t.args
            kb = self.k(base)
            if nm == "T":
                return tuple(reversed(kb)) if kb is not None else None
            if nm in ("real", "imag"):
                return kb
            return None
        if op == "call":
            return self._call(t)
        if op == "binop":
            o, l, r = t.args
            if o == "@":
                return self._matmul(t, self.k(l), self.k(r))
            if o in ("+", "-"):
                kl, kr = self.k(l), self.k(r)
                if kl is not None and kr is not None:
                    self.checked_sites += 1
                    if len(kl) == len(kr) and kl != kr:
                        self.bad(t, f"adds arrays of kinds {kl} and {kr}")
                        return None
                    return kl if len(kl) >= len(kr) else kr
                return kl or kr
            if o in ("*", "/"):
                kl, kr = self.k(l), self.k(r)
                if kl is not None and kr is not None:
                    if len(kl) == len(kr) and kl != kr:
                        self.checked_sites += 1
                        self.bad(t, f"elementwise product of kinds {kl} and {kr}")
                        return None
                    return kl if len(kl) >= len(kr) else kr
                # scalar * array
                if r.op == "const" or kr is None and self._scalar(r):
                    return kl
                if l.op == "const" or kl is None and self._scalar(l):
                    return kr
                return kl or kr
            return None
        if op == "unop":
            return self.k(t.args[1])
        if op == "getitem":
            return self._getitem(t)
        if op == "setitem":
            base, idx, v = t.args
            kb = self.k(base)
            kv = self.k(v)
            if kb is not None and kv is not None and idx.op == "const" and isinstance(idx.args[0], int):
                self.checked_sites += 1
                if tuple(kb[1:]) != tuple(kv):
                    self.bad(t, f"slot of kind {tuple(kb[1:])} receives a value of kind {kv}")
            if kb is not None and kv is not None and idx.op in ("slice", "tuple") and len(kv) == len(kb) and \
                    tuple(kv) != tuple(kb):
                # a whole block of slots replaced by a value of another kind (h1.at[:2].set(rotated)): the result is
                # neither the old nor the new kind slot by slot -- unknown here; its elements are typed where they are read
                return None
            return kb
        if op in ("list", "tuple"):
            ks = [self.k(x) for x in t.args]
            if ks and all(x is not None for x in ks) and len({x for x in ks}) == 1:
                lead = "S" if len(ks) == 2 else "?"
                return (lead,) + ks[0]
            return None
        if op in ("vmap_elem", "scan_x"):
            kb = self.k(t.args[0])
            return tuple(kb[1:]) if kb else None
        return None

    def _scalar(self, t: T) -> bool:
        return t.op in ("const",) or (t.op == "attr" and t.args[1] in ("dt",))

    def _matmul(self, t: T, kl: Kind, kr: Kind) -> Kind:
        if kl is None or kr is None:
            return None
        if not kl or not kr:
            return None
        self.checked_sites += 1
        a, b = kl[-1], kr[0] if len(kr) == 1 else kr[-2] if len(kr) > 2 else kr[0]
        if not self._compat(a, b):
            self.bad(t, f"matrix product contracts an axis of kind {a} with an axis of kind {b} "
                        f"(operands {kl} and {kr})")
            return None
        if len(kr) == 1:
            return tuple(kl[:-1])
        if len(kr) == 2:
            return tuple(kl[:-1]) + tuple(kr[1:])
        # numpy matmul with a stack on the right: batch axes lead, then the row axis of the left operand
        batch = tuple(kr[:-2]) if len(kl) <= 2 else tuple(kl[:-2])
        return batch + tuple(kl[-2:-1]) + tuple(kr[-1:])

    def _dot(self, t: T, kl: Kind, kr: Kind) -> Kind:
        """numpy dot: the last axis of the left operand is summed with the second-to-last axis of the right one and the
        result is left[:-1] + right[:-2] + right[-1:] -- for a right operand of rank > 2 this is NOT the batched matrix
        product (its leading axes come after the left operand's)."""
        if kl is None or kr is None or not kl or not kr:
            return None
        if len(kr) <= 2:
            return self._matmul(t, kl, kr)
        self.checked_sites += 1
        a, b = kl[-1], kr[-2]
        if not self._compat(a, b):
            self.bad(t, f"dot contracts an axis of kind {a} with an axis of kind {b} (operands {kl} and {kr})")
            return None
        return tuple(kl[:-1]) + tuple(kr[:-2]) + tuple(kr[-1:])

    @staticmethod
    def _compat(a: str, b: str) -> bool:
        return a == b

    def _getitem(self, t: T) -> Kind:
        base, idx = t.args
        kb = self.k(base)
        if kb is None:
            return None
        items = list(idx.args) if idx.op == "tuple" else [idx]
        out = []
        pos = 0
        for it in items:
            if pos >= len(kb):
                return None
            if it.op == "slice":
                out.append(self._slice_kind(kb[pos], it))
                pos += 1
            elif it.op == "const" and isinstance(it.args[0], int):
                pos += 1
            elif it.op == "const" and it.args[0] is Ellipsis:
                return None
            else:
                # computed index: keeps the axis only if it is an index array (unknown here)
                return None
        out.extend(kb[pos:])
        return tuple(out)

    def _slice_kind(self, kind: str, sl: T) -> str:
        lo, hi, st = sl.args
        if is_const(lo, None) and is_const(hi, None):
            return kind
        if kind == "O":
            if is_const(lo, None) and hi in self.nocc_terms:
                return "Oo"
            if is_const(hi, None) and lo in self.nocc_terms:
                return "Ov"
        if kind == "SO":
            if is_const(lo, None) and self._is_norb(hi):
                return "O"
            if is_const(hi, None) and self._is_norb(lo):
                return "O"
        return kind

    def _call(self, t: T) -> Kind:
        f, pos, kws = call_parts(t)
        fn = array_fn(t)
        if f.op == "attr":
            recv, meth = f.args
            if meth in ("conj", "copy", "astype"):
                return self.k(recv)
            if meth == "dot" and len(pos) == 1:
                return self._dot(t, self.k(recv), self.k(pos[0]))
            if meth == "reshape":
                return self._reshape(t, self.k(recv), pos)
        if fn == "einsum" and pos and pos[0].op == "const" and isinstance(pos[0].args[0], str):
            return self._einsum(t, pos[0].args[0], pos[1:])
        if fn == "matmul" and len(pos) == 2:
            return self._matmul(t, self.k(pos[0]), self.k(pos[1]))
        if fn == "dot" and len(pos) == 2:
            return self._dot(t, self.k(pos[0]), self.k(pos[1]))
        if fn == "tensordot" and len(pos) >= 2:
            ka, kb = self.k(pos[0]), self.k(pos[1])
            ax = kws.get("axes", pos[2] if len(pos) > 2 else None)
            if ka is None or kb is None or ax is None:
                return None

            def ints(x):
                x = strip_wrappers(x)
                if x.op == "const" and isinstance(x.args[0], int):
                    return [x.args[0]]
                if x.op in ("tuple", "list") and all(strip_wrappers(y).op == "const" and
                                                     isinstance(strip_wrappers(y).args[0], int) for y in x.args):
                    return [strip_wrappers(y).args[0] for y in x.args]
                return None
            axs = strip_wrappers(ax)
            if axs.op == "const" and isinstance(axs.args[0], int):
                n_ = axs.args[0]
                ia, ib = list(range(len(ka) - n_, len(ka))), list(range(n_))
            elif axs.op in ("tuple", "list") and len(axs.args) == 2:
                ia, ib = ints(axs.args[0]), ints(axs.args[1])
            else:
                return None
            if ia is None or ib is None or len(ia) != len(ib):
                return None
            ia = [i % len(ka) for i in ia]
            ib = [i % len(kb) for i in ib]
            self.checked_sites += 1
            for i, j in zip(ia, ib):
                if not self._compat(ka[i], kb[j]):
                    self.bad(t, f"tensordot contracts an axis of kind {ka[i]} with an axis of kind {kb[j]} "
                                f"(operands {ka} and {kb})")
                    return None
            return tuple(k_ for i, k_ in enumerate(ka) if i not in ia) + tuple(k_ for j, k_ in enumerate(kb) if j not in ib)
        if fn == "swapaxes" and len(pos) == 3:
            ka = self.k(pos[0])
            i_, j_ = strip_wrappers(pos[1]), strip_wrappers(pos[2])
            if ka is None or i_.op != "const" or j_.op != "const":
                return None
            lst = list(ka)
            try:
                lst[i_.args[0]], lst[j_.args[0]] = lst[j_.args[0]], lst[i_.args[0]]
            except (IndexError, TypeError):
                return None
            return tuple(lst)
        if fn == "transpose" and pos:
            ka = self.k(pos[0])
            perm = kws.get("axes", pos[1] if len(pos) > 1 else None)
            if ka is None:
                return None
            if perm is None:
                return tuple(reversed(ka))
            pm = strip_wrappers(perm)
            if pm.op in ("tuple", "list") and all(strip_wrappers(y).op == "const" for y in pm.args) and len(pm.args) == len(ka):
                try:
                    return tuple(ka[strip_wrappers(y).args[0]] for y in pm.args)
                except (IndexError, TypeError):
                    return None
            return None
        if fn in ("zeros_like",) and pos:
            return self.k(pos[0])
        if fn in ("tril", "triu") and pos:
            ka = self.k(pos[0])
            if ka is not None and len(ka) >= 2 and all(
                    x.startswith("O") or x in ("SO",) for x in ka[-2:]):
                # a positive witness: the triangle of a matrix over orbital axes is selected by the explicit orbital
                # index, which no basis change commutes with (the Hermitian part (X + X^T)/2 does)
                self.checked_sites += 1
                self.bad(t, f"{fn} selects entries of an array of kinds {ka} by their explicit orbital indices: the "
                            f"result changes with the orbital basis")
            return None
        if fn == "stack" and pos and strip_wrappers(pos[0]).op in ("list", "tuple"):
            items = strip_wrappers(pos[0]).args
            ks = [self.k(x) for x in items]
            ax = kws.get("axis", pos[1] if len(pos) > 1 else const(0))
            ax = strip_wrappers(ax)
            if ks and all(x is not None for x in ks) and len(set(ks)) == 1 and ax.op == "const" and isinstance(ax.args[0], int):
                lead = "S" if len(ks) == 2 else "?"
                a_ = ax.args[0]
                at = a_ if a_ >= 0 else len(ks[0]) + 1 + a_
                if 0 <= at <= len(ks[0]):
                    return tuple(ks[0][:at]) + (lead,) + tuple(ks[0][at:])
            return None
        if fn == "block" and pos and pos[0].op == "list":
            rows = pos[0].args
            ks = [self.k(x) for r in rows if r.op == "list" for x in r.args]
            if ks and all(x == ("O", "O") for x in ks) and len(ks) == 4:
                return ("SO", "SO")
            return None
        if fn in ("hstack",) and pos and pos[0].op in ("list", "tuple"):
            ks = [self.k(x) for x in pos[0].args]
            if len(ks) == 2 and all(x is not None and len(x) == 2 for x in ks) and ks[0][0] == ks[1][0] \
                    and ks[0][1] == ks[1][1] == "O":
                return (ks[0][0], "SO")
            return None
        vm = match_vmap(t)
        if vm is not None:
            fcl, in_axes, vargs = vm
            if fcl.op == "closure" and len(vargs) == 1:
                x = mk("vmap_elem", vargs[0], 0)
                body = self.ev.open_closure(fcl, [x])
                kb = self.k(body)
                ka = self.k(vargs[0])
                if kb is not None and ka is not None:
                    return (ka[0],) + kb
            return None
        return None

    def _two_norb(self, d: T) -> bool:
        d = strip_wrappers(d)
        return d.op == "binop" and d.args[0] == "*" and (
            (is_const(d.args[1], 2) and self._is_norb(d.args[2])) or (is_const(d.args[2], 2) and self._is_norb(d.args[1])))

    def _reshape(self, t: T, kb: Kind, dims: List[T]) -> Kind:
        if kb is None:
            return None
        if len(dims) == 1 and strip_wrappers(dims[0]).op in ("tuple", "list"):
            dims = list(strip_wrappers(dims[0]).args)
        # GHF spin-orbital axis: (.., SO) -> (.., S, O) splits spin-major; (.., S, O) -> (.., SO) joins it again.  Joining
        # (.., O, S) instead numbers the spin orbitals orbital-major (interleaved), which is not the [up | dn] block layout
        # every other site uses: a positive witness.
        if len(dims) == len(kb) + 1 and kb[-1] == "SO" and is_const(strip_wrappers(dims[-2]), 2) and self._is_norb(dims[-1]):
            return tuple(kb[:-1]) + ("S", "O")
        if len(dims) == len(kb) - 1 and len(kb) >= 2 and self._two_norb(dims[-1]):
            if tuple(kb[-2:]) == ("S", "O"):
                return tuple(kb[:-2]) + ("SO",)
            if tuple(kb[-2:]) == ("O", "S"):
                self.checked_sites += 1
                self.bad(t, f"reshape joins axes of kinds {tuple(kb[-2:])} into the spin-orbital axis: the spin index runs "
                            f"fastest (interleaved), the layout used everywhere else is [up block | dn block]")
                return None
            return None
        # (G, O, O).reshape(norb, -1): a row-major reshape does not move axes -- the leading extent norb is cut out of the
        # Cholesky index (and whatever follows it), not the orbital axis: a positive witness
        if len(kb) == 3 and kb[0] == "G" and len(dims) == 2 and self._is_norb(dims[0]) and is_const(strip_wrappers(dims[1]), -1):
            self.checked_sites += 1
            self.bad(t, f"reshape(norb, -1) of a tensor with axes {tuple(kb)}: the new leading axis of extent norb is cut out of "
                        f"the Cholesky index, not an orbital axis (the orbital axis has to be moved to the front first)")
            return None
        # (G, F:b) -> (G, O:b, O:b)
        if len(kb) == 2 and kb[1].startswith("F") and len(dims) == 3 and is_const(dims[0], -1) and \
                self._is_norb(dims[1]) and self._is_norb(dims[2]):
            b = kb[1][1:]
            return (kb[0], "O" + b, "O" + b)
        # (G, O:b, O:b') -> (G, F:b)
        if len(kb) == 3 and len(dims) == 2 and is_const(dims[0], -1) and dims[1].op == "binop" and \
                dims[1].args[0] == "*" and self._is_norb(dims[1].args[1]) and self._is_norb(dims[1].args[2]):
            self.checked_sites += 1
            if kb[1] != kb[2] or not kb[1].startswith("O"):
                self.bad(t, f"flattens axes of kinds {kb[1]} and {kb[2]} into one orbital-pair axis")
                return None
            return (kb[0], "F" + kb[1][1:])
        return None

    def _einsum(self, t: T, spec: str, ops: List[T]) -> Kind:
        spec = spec.replace(" ", "")
        if "->" not in spec:
            return None
        ins, out = spec.split("->")
        subs = ins.split(",")
        if len(subs) != len(ops):
            return None
        letter: Dict[str, str] = {}
        known = True
        for s_, o in zip(subs, ops):
            ko = self.k(o)
            if ko is None:
                known = False
                continue
            if len(ko) != len(s_):
                return None
            for ch, kd in zip(s_, ko):
                if ch in letter and letter[ch] != kd:
                    self.checked_sites += 1
                    self.bad(t, f"einsum '{spec}': index '{ch}' ranges over an axis of kind {letter[ch]} and "
                                f"an axis of kind {kd}")
                    return None
                letter[ch] = kd
        if known:
            self.checked_sites += 1
        if all(ch in letter for ch in out):
            return tuple(letter[ch] for ch in out)
        return None
