"""C02 -- local energy (structural clauses)."""

from __future__ import annotations

from ..model import AnalysisError
from ..rules import batching, bind, keys
from ..rules.match import m_arrcall, m_binop, product_factors
from ..rules.siblings import swap_map
from ..rules.trialsib import HD, WD, Sib, key, nelec, restricted_default
from ..symex import (Evaluator, array_fn, call_parts, const, mk, getitem, is_const, match_scan, show, strip_wrappers,
                     subterms, sym)
from .c04 import input_ham_keys

ID = "C02"
EXPLANATION = (
    "KEYS-1: every ham_data key read by the MRO-resolved energy / force-bias routine of a trial class "
    "(rot_h1, rot_chol, lci1, h1_b, chol_b, lci1_a/b, normal_ordering_term ...) is written on every path by "
    "that class's resolved _build_measurement_intermediates (or is a Hamiltonian input). SIB-2 (linear "
    "value numbering, contradiction rule): rhf's restricted and unrestricted energies agree for equal "
    "spin blocks; cisd_faster's 50 shared intermediates and its final combination equal cisd's modulo the "
    "two scan-replaced terms; noci's per-determinant energy equals uhf's energy under the parameter "
    "correspondence. SYM-1: the uhf, noci and ucisd energies (including ucisd's scanned two-body terms) "
    "are invariant under a consistent exchange of the spin labels; restricted energies are invariant "
    "under exchanging h1[0] and h1[1] (they see only the spin average). FD-1: the finite-difference "
    "two-body term of wave_function_auto is the symmetric stencil (O(+eps) - 2 O(0) + O(-eps))/eps^2 of "
    "one function, and the one-body term differentiates at x = 0 with unit tangent. NI-1: batched "
    "evaluation is a pure split/merge of the walker axis. "
    "SYM-1 / SIB-2 on the AD helpers of wave_function_auto: the rotated down-spin walker handed to "
    "_calc_overlap mirrors the rotated up-spin one (walker_up -> walker_dn, h1[0] -> h1[1]) and the "
    "restricted helper applies the same rotation. cisd_faster == cisd as whole value numbers (an "
    "accumulating scan of scalar contractions is numbered as the same contraction with the scanned axis "
    "summed). "
    "HOLO-1 on every _calc_energy* (holomorphic in the walker). CAP-1: the Cholesky-vector axis of "
    "ham_data['chol'] / ['rot_chol'] is never sliced partially inside an estimator without the "
    "complementary slice. SIB-2 (dependence form) for hand-written restricted energies. "
    ' SIB-2 (dependence form): every hand-written _calc_energy* / its restricted entry point reads each trial component the overlap of the same class reads (an estimator that ignores part of the trial cannot be the mixed estimator of that trial). The private per-determinant NOCI helpers are judged with their parameters as the calling method passes them (parameter order, names and record packing are free). '
    ' SIB-2 (dependence form): in rhf._calc_energy and uhf._calc_energy every exchange contraction x * x.T squares an intermediate that depends on one walker block only (collinear determinants do not exchange between spin sectors). '
)
NOT_DECIDED = (
    "the half-rotated-integral and Wick formulas as formulas (coefficients, exchange vs Coulomb index "
    "patterns), the convergence order in eps."
)
TECHNIQUE = "static analysis: key def-before-use per class, linear value numbering of sibling implementations, spin-exchange symmetry"

ENERGY = ["_calc_energy", "_calc_energy_restricted"]
FB = ["_calc_force_bias", "_calc_force_bias_restricted"]


def keys1(ctx, methods, tag):
    p = ctx.p
    ka = keys.key_analysis(p)
    inputs = input_ham_keys(ctx)
    n = 0
    for q in p.subclasses("wavefunctions.wave_function"):
        if p.abstract_methods(q) and p.subclasses(q, False):
            continue
        if q in ("wavefunctions.wave_function", "wavefunctions.wave_function_cpmc",
                 "wavefunctions.wave_function_auto"):
            continue
        r = keys.reads_of(ka, q, methods, "ham_data")
        if not r:
            continue
        w = keys.writes_of(ka, q, "_build_measurement_intermediates", "ham_data")
        missing = sorted(k for k in r if k not in w and k not in inputs)
        n += 1
        b = p.lookup_method(q, "_build_measurement_intermediates")
        ctx.ob("KEYS-1", f"{q}: ham_data keys read by the {tag} are built by its measurement builder",
               not missing, (f"{missing} read in {[r[k][0] for k in missing]} but not written by "
                             f"{b.qualname}") if missing else f"reads {sorted(r)}; builder writes {sorted(w)}",
               b)
    if n < 8:
        raise AnalysisError(f"KEYS-1 matched only {n} trial classes")


def run(ctx):
    p = ctx.p
    bind.bind3(ctx, "wavefunctions.wave_function", ["_calc_energy", "_calc_energy_restricted",
                                                    "_build_measurement_intermediates", "calc_energy"])
    keys1(ctx, ENERGY, "energy")
    for fi in p.lookup_dispatch("wavefunctions.wave_function", "calc_energy"):
        batching.check_batched(ctx, fi, "wavefunctions.wave_function")
    restricted_default(ctx, "energy")
    s = Sib(ctx)
    s.auto_helper_mirrors(["_overlap_with_single_rot", "_overlap_with_double_rot"])
    s.holomorphy(("_calc_energy",))
    s.restricted_consumes_trial_data("energy")
    s.cholesky_axis_complete(("_calc_energy",))
    s.estimator_sees_the_trial("energy")
    s.rhf_restricted_vs_unrestricted("energy")
    s.exchange_within_one_spin()
    s.cisd_vs_faster()
    s.noci_vs_uhf()
    s.uhf_spin_symmetry("_calc_energy")
    s.noci_spin_symmetry()
    s.ucisd_spin_symmetry("_calc_energy")
    s.cisd_overlap_ratio()
    s.ucisd_overlap_ratio()
    s.noci_total_overlap()
    h1_average(ctx, s)
    builders(ctx, s)
    auto_fd(ctx)


def h1_average(ctx, s: Sib):
    """Restricted entry points see only the spin average of h1."""
    sw = swap_map([(key(HD, "h1", 0), key(HD, "h1", 1))])
    for cls, meth in (("cisd", "_calc_energy_restricted"), ("cisd_faster", "_calc_energy_restricted"),
                      ("wave_function_auto", "_calc_energy_restricted"), ("rhf", "optimize")):
        e = s.E(cls, meth)
        target = e.result
        if meth == "optimize":
            target = getitem(e.result, const("mo_coeff"))
        s.cmp("SYM-1", f"{cls}.{meth}: depends on h1 only through h1[0] + h1[1]", target, target, e.fi,
              None, hyp_b=sw, what="invariant under h1[0] <-> h1[1]")
    e = s.E("rhf", "_build_measurement_intermediates")
    s.cmp("SYM-1", "rhf._build_measurement_intermediates: rot_h1 built from the spin average",
          getitem(e.result, const("rot_h1")), getitem(e.result, const("rot_h1")), e.fi, None, hyp_b=sw)


def builders(ctx, s: Sib):
    """uhf / noci builders: entry s of rot_h1 / rot_chol is rotated with orbital set s and h1[s]."""
    for cls in ("uhf",):
        e = s.E(cls, "_build_measurement_intermediates")
        sw = swap_map([(key(WD, "mo_coeff", 0), key(WD, "mo_coeff", 1)), (key(HD, "h1", 0), key(HD, "h1", 1))])
        for k in ("rot_h1", "rot_chol"):
            v = strip_wrappers(getitem(e.result, const(k)))
            s.cmp("SYM-1", f"{cls}._build_measurement_intermediates: {k}[s] uses orbital set s (and h1[s])",
                  getitem(v, const(0)), getitem(v, const(1)), e.fi, None, hyp_b=sw,
                  what=f"{k}[0] with 0<->1 == {k}[1]")
    # the per-determinant helper, with its parameters as noci._build_measurement_intermediates passes them (its
    # signature -- a ham_data dictionary or the arrays themselves, in whatever order -- is private to the class)
    e = s.E("noci", "_rot_orbs_single_det")
    r = s.helper_in_caller_terms("noci", "_rot_orbs_single_det", "_build_measurement_intermediates")
    if r is None:
        ctx.rep.note("noci._build_measurement_intermediates: the call of _rot_orbs_single_det was not identified; "
                     "the spin-block rule does not apply")
    else:
        dets = key(WD, "ci_coeffs_dets", 1)
        sw = swap_map([(getitem(dets, const(0)), getitem(dets, const(1))), (key(HD, "h1", 0), key(HD, "h1", 1))])
        for i, k in enumerate(("rot_h1", "rot_chol")):
            v = strip_wrappers(getitem(r, const(i)))
            s.cmp("SYM-1", f"noci._rot_orbs_single_det: {k}[s] uses determinant block s (and h1[s])",
                  getitem(v, const(0)), getitem(v, const(1)), e.fi, None, hyp_b=sw)
    # ucisd builder: the beta intermediates are rotated with mo_coeff[1] and built from h1[1]
    e = s.E("ucisd", "_build_measurement_intermediates")
    hb = strip_wrappers(getitem(e.result, const("h1_b")))
    ok = all(any(x is t for x in subterms(hb)) for t in (key(WD, "mo_coeff", 1), key(HD, "h1", 1))) and \
        not any(x is key(WD, "mo_coeff", 0) or x is key(HD, "h1", 0) for x in subterms(hb))
    ctx.ob("SYM-1", "ucisd._build_measurement_intermediates: h1_b is h1[1] in the beta orbital basis", ok,
           f"h1_b = {show(hb, maxdepth=3)[:100]}", e.fi)
    cb = strip_wrappers(getitem(e.result, const("chol_b")))
    ok = any(x is key(WD, "mo_coeff", 1) for x in subterms(cb)) and not any(
        x is key(WD, "mo_coeff", 0) for x in subterms(cb))
    ctx.ob("SYM-1", "ucisd._build_measurement_intermediates: chol_b is rotated with the beta orbitals", ok,
           f"chol_b = {show(cb, maxdepth=3)[:100]}", e.fi)
    la = strip_wrappers(getitem(e.result, const("lci1_a")))
    lb = strip_wrappers(getitem(e.result, const("lci1_b")))
    to_b = {key(WD, "ci1A"): key(WD, "ci1B"), nelec(0): nelec(1), key(HD, "chol"): cb}
    s.cmp("SYM-1", "ucisd._build_measurement_intermediates: lci1_b mirrors lci1_a with the beta quantities",
          la, lb, e.fi, to_b, hyp_b={}, what="chol -> chol_b, ci1A -> ci1B, nelec[0] -> nelec[1]")


def auto_fd(ctx):
    """FD-1: symmetric second-difference stencil in wave_function_auto."""
    p = ctx.p
    for meth in ("_calc_energy", "_calc_energy_restricted"):
        fi = p.func(f"wavefunctions.wave_function_auto.{meth}")
        ev = Evaluator(p)
        fr = ev.eval_function(fi)
        R = strip_wrappers(ev.result(fr))
        scans = []
        for x in subterms(R):
            if x.op == "call" and match_scan(x) is not None:
                scans.append(x)
        ok, why = False, ""
        eps = None
        if len(scans) != 3:
            why = f"{len(scans)} scans over the Cholesky vectors (expected 3: +eps, 0, -eps)"
        else:
            info = []
            mapped = []
            for sc in scans:
                f, init, xs, length = match_scan(sc)
                if init.op != "tuple" or not init.args:
                    # a map over the Cholesky vectors (no carry): the step is an argument bound into the mapped function
                    info = None
                    if f.op == "closure":
                        x_ = mk("scan_x", xs, 0)
                        try:
                            b_ = strip_wrappers(ev.open_closure(f, [init, x_], at_call=sc))
                        except AnalysisError:
                            b_ = None
                        y_ = strip_wrappers(b_.args[1]) if b_ is not None and b_.op == "tuple" and len(b_.args) == 2 else None
                        if y_ is not None and y_.op == "call" and y_.args[0].op == "attr":
                            _, p_, k_ = call_parts(y_)
                            mapped.append((y_.args[0], list(p_) + [k_[q_] for q_ in sorted(k_)], xs))
                    continue
                info.append((f, init.args[0], init.args[1:], xs))
            if info is None and len(mapped) == 3 and len({len(m_[1]) for m_ in mapped}) == 1:
                diff = [i_ for i_ in range(len(mapped[0][1])) if len({m_[1][i_].uid for m_ in mapped}) > 1]
                if len(diff) == 1:
                    class _F:        # stands in for the scanned function: one callee
                        pass
                    info = [(m_[0], m_[1][diff[0]], tuple(a_ for j_, a_ in enumerate(m_[1]) if j_ != diff[0]), m_[2]) for m_ in mapped]
            if info is None:
                ctx.rep.note(f"wave_function_auto.{meth}: the three evaluations over the Cholesky vectors are written in a form "
                             f"the stencil rule does not model (no (step, walker, data) carry, no mapped call with one "
                             f"differing argument); not judged")
                continue
            else:
                # one scan body: the same closure, or closures made from the same function text (the three scans may be
                # issued by three calls of one helper parametrised by the step)
                same_f = len({(id(ev.closures[i[0].args[0]].node) if i[0].op == "closure" else i[0].uid) for i in info}) == 1
                same_rest = len({tuple(a.uid for a in i[2]) for i in info}) == 1
                same_xs = len({i[3].uid for i in info}) == 1
                steps = [strip_wrappers(i[1]) for i in info]
                zero = [x for x in steps if x.op == "const" and x.args[0] in (0, 0.0)]
                plus = [x for x in steps if x.op == "attr" and x.args[1] == "eps"]
                minus = []
                for x in steps:
                    m = m_binop(x, "*")
                    if m is not None:
                        for a, b in ((m[0], m[1]), (m[1], m[0])):
                            if a.op == "const" and a.args[0] in (-1, -1.0) and b.op == "attr" and b.args[1] == "eps":
                                minus.append(x)
                    if x.op == "unop" and x.args[0] == "-" and x.args[1].op == "attr" and x.args[1].args[1] == "eps":
                        minus.append(x)
                ok = same_f and same_rest and same_xs and len(zero) == 1 and len(plus) == 1 and len(minus) == 1
                if not ok and mapped and not (zero or plus or minus):
                    # mapped form whose differing argument is not the bare step (the rotation was evaluated in place): the
                    # step values are not read off; not judged
                    ctx.rep.note(f"wave_function_auto.{meth}: three mapped evaluations over the Cholesky vectors found, the finite-"
                                 f"difference step is not an explicit argument of the mapped call; the stencil rule is not applied")
                    continue
                why = "three evaluations of one function at +eps, 0, -eps over the same Cholesky vectors" if ok \
                    else (f"same body {same_f}, same walker/data {same_rest}, same vectors {same_xs}, steps "
                          f"{[show(x) for x in steps]}")
        ctx.ob("FD-1", f"wave_function_auto.{meth}: symmetric second-difference stencil", ok, why, fi)
        # combination (p - 2*z + m) / eps / eps
        # the second difference is what is summed over the Cholesky vectors: the argument of the sum(...) that
        # contains all three scans
        d2 = None
        for x in subterms(R):
            if x.op == "call" and array_fn(x) == "sum":
                a0 = call_parts(x)[1][0] if call_parts(x)[1] else None
                if a0 is not None and len([y for y in subterms(a0) if y.op == "call" and match_scan(y) is not None]) == 3:
                    if d2 is None or len(list(subterms(a0))) < len(list(subterms(d2))):
                        d2 = a0
        okc = False
        if d2 is not None and len(scans) == 3:
            from ..rules.gvn import GVN, f_key
            g = GVN(ev)
            form = g.number(d2)
            coefs = sorted(str(c[0]) for c in form.values())
            atoms = [g.atom_keys[a] for a in form]
            okc = len(form) == 3 and all(k[0] == "divf" or k[0] == "div" for k in atoms) and \
                sorted(c[0] for c in form.values()) == [-2, 1, 1]
        ctx.ob("FD-1", f"wave_function_auto.{meth}: stencil weights are (1, -2, 1) / eps^2", okc,
               "d2 = (O(+) - 2 O(0) + O(-)) / eps / eps" if okc else "second difference has other weights", fi)
        # one-body: jvp at x = 0 with tangent 1
        jv = [x for x in subterms(R) if x.op == "call" and (getattr(x.args[0], "op", "") == "name"
                                                          and x.args[0].args[0] == "jax.jvp")]
        okj = False
        if len(jv) == 1:
            _, pos, _ = call_parts(jv[0])
            if len(pos) == 3 and pos[1].op == "list" and pos[2].op == "list" and len(pos[1].args) == 1:
                okj = pos[1].args[0].op == "const" and pos[1].args[0].args[0] in (0, 0.0) and \
                    pos[2].args[0].op == "const" and pos[2].args[0].args[0] in (1, 1.0)
        ctx.ob("FD-1", f"wave_function_auto.{meth}: one-body term is the derivative at x = 0", okj,
               "jvp(f, [0.0], [1.0])" if okj else "one-body derivative not taken at x = 0 with unit tangent", fi)
