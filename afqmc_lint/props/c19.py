"""C19 -- means and error bars: homogeneity / shift typing and pairing rules (structural)."""

from __future__ import annotations

import ast
from fractions import Fraction
from typing import Dict, List, Optional, Tuple

from ..model import AnalysisError, dotted
from ..rules import common
from ..symex import Evaluator, show

ID = "C19"
EXPLANATION = (
    "HOMOG-1 (units-of-measure style typing of stat_utils.blocking_analysis). Every expression is typed by "
    "its degree of homogeneity in the weights (weights: 1, samples: 0; * adds, / subtracts, sums and slices "
    "keep, a sum or difference needs equal degrees, x**k multiplies) and by how it responds to adding a "
    "constant to the samples (shift class: free / shifts with the constant times weights^d). Obligations: "
    "both returned values have degree 0 (invariant under a common rescaling of the weights); the mean "
    "shifts with the constant and the error is shift-free (it sees the samples only through "
    "blockedEnergies - mean); every difference/sum joins equal degrees (v1 - v2/v1). WMEAN-1: each "
    "weighted mean is normalised by the sum of the weights under its numerator. PAIR: block j uses the same "
    "slice [j*i:(j+1)*i] for weights and weighted samples and divides by blockedWeights[j]; the error is "
    "divided by nBlocks - 1; reject_outliers measures deviations from the median of the very column it "
    "tests and returns the mask it filters with; the driver applies that mask to the per-block density "
    "matrices and filters on the observable column exactly when an observable is sampled; "
    "jackknife_ratios removes sample i from both means and divides both by n - 1. "
    "reject_outliers tests the absolute (two-sided) deviation; in the driver every array paired with "
    "filtered weights carries the mask of the same reject_outliers call. "
    "PAIR-4: the median absolute deviation in reject_outliers is a median over every row (not over a "
    "selection of the deviations). The block sums of blocking_analysis are recognised in the per-block "
    "loop form and in the X[:nBlocks*i].reshape(nBlocks, i).sum(axis=1) form. "
    ' PAIR-4: reshape(i, nBlocks).sum(axis=0) (blocks made of strided instead of consecutive samples) is a positive witness against the block geometry; the per-block accumulations may sit in one loop or in two loops over the same range (compared up to the loop counter). '
    ' PAIR-4 (reduceat form): segment sums taken with ufunc.reduceat over arange(0, n, i) need the series cut to n samples first; on the uncut series the trailing nSamples % i samples fall into the last block. '
    ' jackknife_ratios: Re(a) / Re(b) in place of Re(a / b), and a variance taken of complex ratios with no real part before it, are reported; leave-one-out forms the pairing rule cannot read are noted. '
)
NOT_DECIDED = "statistical validity of the error bar, plateau detection, behaviour on autocorrelated series."
TECHNIQUE = "static analysis: degree-of-homogeneity / shift typing over the AST, def-use pairing rules"


class Ty:
    """(degree in weights, shift class)   shift: None = shift-free, d = shifts by c * (weights-degree d)"""

    def __init__(self, deg: Optional[Fraction], shift: Optional[Fraction], wild: bool = False):
        self.deg = deg
        self.shift = shift
        self.wild = wild  # zeros / constants: any degree

    def __repr__(self):
        return f"deg={self.deg} shift={'free' if self.shift is None else self.shift}"


class Typer:
    def __init__(self, fi, weights: str, samples: str):
        self.fi = fi
        self.env: Dict[str, Ty] = {weights: Ty(Fraction(1), None), samples: Ty(Fraction(0), Fraction(0))}
        self.problems: List[Tuple[int, str]] = []

    def const(self) -> Ty:
        return Ty(Fraction(0), None, wild=True)

    def ty(self, n: ast.AST) -> Ty:
        if isinstance(n, ast.Constant):
            return self.const()
        if isinstance(n, ast.Name):
            return self.env.get(n.id, self.const())
        if isinstance(n, ast.Subscript):
            return self.ty(n.value)
        if isinstance(n, ast.Attribute):
            if n.attr in ("T", "real"):
                return self.ty(n.value)
            return self.const()
        if isinstance(n, ast.UnaryOp):
            return self.ty(n.operand)
        if isinstance(n, ast.BinOp):
            a, b = self.ty(n.left), self.ty(n.right)
            if isinstance(n.op, ast.Mult):
                return self.mul(a, b, n)
            if isinstance(n.op, ast.Div):
                return self.div(a, b, n)
            if isinstance(n.op, (ast.Add, ast.Sub)):
                return self.add(a, b, n, isinstance(n.op, ast.Sub))
            if isinstance(n.op, ast.Pow):
                k = n.right.value if isinstance(n.right, ast.Constant) else None
                if k is None:
                    return self.const()
                kf = Fraction(k).limit_denominator(1000)
                if a.shift is not None and not a.wild:
                    self.problems.append((n.lineno, "power of a quantity that shifts with the samples"))
                return Ty(a.deg * kf if a.deg is not None else None, None, a.wild)
            return self.const()
        if isinstance(n, ast.Call):
            fn = dotted(n.func) or ""
            short = fn.split(".")[-1]
            if isinstance(n.func, ast.Attribute) and n.func.attr in ("sum", "mean", "copy") and \
                    not fn.startswith(("np.", "numpy.")):
                return self.ty(n.func.value)
            if short in ("multiply",) and len(n.args) == 2:
                return self.mul(self.ty(n.args[0]), self.ty(n.args[1]), n)
            if short in ("sum", "array", "abs", "max", "min", "median") and n.args:
                if short in ("max",) and len(n.args) == 2:
                    return self.add(self.ty(n.args[0]), self.ty(n.args[1]), n, False, joining="max")
                return self.ty(n.args[0])
            if short in ("sqrt",) and n.args:
                a = self.ty(n.args[0])
                return Ty(a.deg / 2 if a.deg is not None else None, a.shift, a.wild)
            if short in ("zeros", "ones", "zeros_like", "arange", "range", "len"):
                return self.const()
            return self.const()
        return self.const()

    def bind_target(self, target: ast.AST, it: ast.AST):
        """for <target> in <it>: an element of an array has the array's type; enumerate / zip / range give (count,
        element), (element, element, ..), count"""
        fn = dotted(it.func) if isinstance(it, ast.Call) else None
        if isinstance(target, ast.Name):
            if fn in ("range", "enumerate", "zip") or isinstance(it, ast.Call) and fn in ("len",):
                self.env[target.id] = self.const()
            else:
                self.env[target.id] = self.ty(it)
            return
        if isinstance(target, (ast.Tuple, ast.List)):
            if fn == "enumerate" and it.args and len(target.elts) == 2:
                self.bind_target(target.elts[0], ast.Call(func=ast.Name(id="range", ctx=ast.Load()), args=[], keywords=[]))
                self.bind_target(target.elts[1], it.args[0])
                return
            if fn == "zip" and len(it.args) == len(target.elts):
                for t_, a_ in zip(target.elts, it.args):
                    self.bind_target(t_, a_)
                return
            for t_ in target.elts:
                self.bind_target(t_, it)

    def mul(self, a: Ty, b: Ty, n) -> Ty:
        deg = (a.deg or 0) + (b.deg or 0)
        if a.shift is not None and b.shift is not None:
            self.problems.append((n.lineno, "product of two quantities that both shift with the samples"))
            return Ty(deg, None)
        if a.shift is not None:
            return Ty(deg, a.shift + (b.deg or 0))
        if b.shift is not None:
            return Ty(deg, b.shift + (a.deg or 0))
        return Ty(deg, None, a.wild and b.wild)

    def div(self, a: Ty, b: Ty, n) -> Ty:
        if b.shift is not None:
            self.problems.append((n.lineno, "division by a quantity that shifts with the samples"))
        deg = (a.deg or 0) - (b.deg or 0)
        return Ty(deg, None if a.shift is None else a.shift - (b.deg or 0), a.wild and b.wild)

    def add(self, a: Ty, b: Ty, n, is_sub: bool, joining: str = "") -> Ty:
        if a.wild and not b.wild:
            a = Ty(b.deg, a.shift, True)
        if b.wild and not a.wild:
            b = Ty(a.deg, b.shift, True)
        if a.deg != b.deg:
            self.problems.append((n.lineno, f"{joining or ('difference' if is_sub else 'sum')} of terms of "
                                            f"weight-degree {a.deg} and {b.deg}: {ast.unparse(n)[:60]}"))
        if a.shift is None and b.shift is None:
            sh = None
        elif a.shift is not None and b.shift is not None:
            if a.shift != b.shift:
                self.problems.append((n.lineno, "terms shift with different powers of the weights"))
            sh = None if is_sub else a.shift
        else:
            sh = a.shift if a.shift is not None else b.shift
        return Ty(a.deg, sh, a.wild and b.wild)

    def run(self, stmts):
        for st in stmts:
            if isinstance(st, ast.Assign):
                t = self.ty(st.value)
                tg = st.targets[0]
                if isinstance(tg, ast.Name):
                    self.env[tg.id] = t
                elif isinstance(tg, ast.Subscript) and isinstance(tg.value, ast.Name):
                    old = self.env.get(tg.value.id)
                    if old is None or old.wild:
                        self.env[tg.value.id] = t
                    elif (old.deg, old.shift) != (t.deg, t.shift):
                        self.problems.append((st.lineno, f"array {tg.value.id} receives entries of different type"))
            elif isinstance(st, ast.AugAssign) and isinstance(st.target, ast.Name):
                cur = self.env.get(st.target.id, self.const())
                v = self.ty(st.value)
                fake = ast.BinOp(left=st.target, op=st.op, right=st.value, lineno=st.lineno)
                self.env[st.target.id] = self.ty(ast.copy_location(fake, st))
            elif isinstance(st, (ast.For, ast.While)):
                if isinstance(st, ast.For):
                    self.bind_target(st.target, st.iter)
                self.run(st.body)
            elif isinstance(st, ast.If):
                self.run(st.body)
                self.run(st.orelse)


class TermTyper(Typer):
    """The same typing on value-graph terms: what the returned mean and error are made of, wherever the statements that
    compute them were put (helpers, methods of a private carrier class, named temporaries)."""

    def __init__(self, fi, weights: str, samples: str):
        super().__init__(fi, weights, samples)
        from ..symex import sym as _sym
        self.leaf = {_sym(weights): self.env[weights], _sym(samples): self.env[samples]}
        self.memo: Dict[int, Ty] = {}
        self.ln = fi.lineno

    class _At:
        def __init__(self, line, text):
            self.lineno, self._t = line, text

    def tt(self, t) -> Ty:
        r = self.memo.get(t.uid)
        if r is None:
            self.memo[t.uid] = self.const()          # cycles through loop-carried terms
            r = self._tt(t)
            self.memo[t.uid] = r
        return r

    def _tt(self, t) -> Ty:
        from ..symex import array_fn, call_parts, show as _show, strip_wrappers as _sw
        if t in self.leaf:
            return self.leaf[t]
        t0 = _sw(t)
        if t0 is not t:
            return self.tt(t0)
        op = t.op
        at = self._At(self.ln, _show(t, maxdepth=2)[:60])
        if op in ("const", "sym", "iter", "name", "global"):
            return self.const()
        if op in ("getitem", "scan_x", "vmap_elem"):
            return self.tt(t.args[0])
        if op == "attr":
            return self.tt(t.args[0]) if t.args[1] in ("T", "real") else self.const()
        if op == "unop":
            return self.tt(t.args[1])
        if op == "binop":
            o, l, r = t.args
            a, b = self.tt(l), self.tt(r)
            if o == "*":
                return self.mul(a, b, at)
            if o == "/":
                return self.div(a, b, at)
            if o in ("+", "-"):
                return self._add(a, b, at, o == "-", text=at._t)
            if o == "**":
                k = r.args[0] if r.op == "const" and isinstance(r.args[0], (int, float)) else None
                if k is None:
                    return self.const()
                kf = Fraction(k).limit_denominator(1000)
                if a.shift is not None and not a.wild:
                    self.problems.append((self.ln, "power of a quantity that shifts with the samples"))
                return Ty(a.deg * kf if a.deg is not None else None, None, a.wild)
            return self.const()
        if op in ("phi", "ifexp") and len(t.args) == 3:
            a, b = self.tt(t.args[1]), self.tt(t.args[2])
            return b if a.wild else a
        if op == "loopout" and len(t.args) == 4:
            return self.tt(t.args[3])
        if op == "havoc":
            return self.const()
        if op == "setitem":
            base, v = self.tt(t.args[0]), self.tt(t.args[2])
            if base.wild:
                return v
            if not v.wild and (base.deg, base.shift) != (v.deg, v.shift):
                self.problems.append((self.ln, f"an array receives entries of different type: {at._t}"))
            return base
        if op in ("tuple", "list") and t.args:
            return self.tt(t.args[0])
        if op == "call":
            f, pos, kws = call_parts(t)
            short = (array_fn(t) or "")
            if f.op == "attr" and f.args[1] in ("sum", "mean", "copy", "astype", "reshape", "ravel", "flatten"):
                return self.tt(f.args[0])
            if short == "multiply" and len(pos) == 2:
                return self.mul(self.tt(pos[0]), self.tt(pos[1]), at)
            if short in ("sum", "array", "asarray", "abs", "absolute", "min", "median", "mean", "stack", "reshape", "cumsum") and pos:
                return self.tt(pos[0])
            if short in ("max", "maximum") and len(pos) == 2:
                return self._add(self.tt(pos[0]), self.tt(pos[1]), at, False, joining="max", text=at._t)
            if short == "max" and pos:
                return self.tt(pos[0])
            if short == "sqrt" and pos:
                a = self.tt(pos[0])
                return Ty(a.deg / 2 if a.deg is not None else None, a.shift, a.wild)
            if short == "average" and pos:
                w = kws.get("weights", pos[1] if len(pos) > 1 else None)
                if w is not None:
                    return self.div(self.mul(self.tt(pos[0]), self.tt(w), at), self.tt(w), at)
            return self.const()
        return self.const()

    def _add(self, a, b, at, is_sub, joining="", text=""):
        n0 = len(self.problems)
        r = Typer.add(self, a, b, ast.parse("0").body[0].value if False else _FakeNode(at.lineno, text), is_sub, joining)
        return r


class _FakeNode(ast.Constant):
    """an ast node that unparses to a given text (messages of the typing rules)"""

    def __init__(self, lineno, text):
        super().__init__(value=text)
        self.lineno = lineno


def blocking(ctx):
    p = ctx.p
    fi = p.func("stat_utils.blocking_analysis")
    params = [x.name for x in fi.params]
    # typed on the value graph (helpers and private carrier classes opened in place); the syntax-directed typer is the
    # fallback when the function does not hand back a (mean, error) pair there
    ev0, fr0 = common.eval_with_terms(p, fi)
    from ..symex import strip_wrappers as _sw0
    R0 = _sw0(ev0.result(fr0))
    if R0.op == "tuple" and len(R0.args) == 2:
        ty = TermTyper(fi, params[0], params[1])
        mean_t, err_t = ty.tt(R0.args[0]), ty.tt(R0.args[1])
    else:
        ty = Typer(fi, params[0], params[1])
        ty.run(fi.node.body)
        from ..model import returned_values
        rets = [v_ for _, v_ in returned_values(fi.node)]
        if not rets or not isinstance(rets[-1], ast.Tuple) or len(rets[-1].elts) != 2:
            raise AnalysisError("blocking_analysis: unmodelled return")
        mean_t, err_t = (ty.ty(e) for e in rets[-1].elts)
    ctx.ob("HOMOG-1", "blocking_analysis: every sum / difference joins terms of equal weight-degree",
           not ty.problems, "; ".join(f"line {l}: {m}" for l, m in ty.problems[:3]) or
           f"{len(ty.env)} typed variables", fi)
    ctx.ob("HOMOG-1", "blocking_analysis: the mean is invariant under rescaling the weights and shifts with the samples",
           mean_t.deg == 0 and mean_t.shift == 0, f"mean: {mean_t}", fi)
    ctx.ob("HOMOG-1", "blocking_analysis: the error is invariant under rescaling the weights and under a constant shift",
           err_t.deg == 0 and err_t.shift is None, f"error: {err_t}", fi)
    # WMEAN-1 via the value graph
    ev, fr = common.eval_with_terms(p, fi)
    n = 0
    seen = set()
    for t in common.all_terms(ev):
        if t.uid in seen:
            continue
        seen.add(t.uid)
        wm = common.wmean(t)
        if wm is not None:
            ok, msg, ns, d = wm
            n += 1
            ctx.ob("WMEAN-1", f"blocking_analysis: weighted mean #{n}", ok, msg, fi, ev.line_of.get(t.uid, fi.lineno))
    ctx.ob("WMEAN-1", "blocking_analysis: overall and per-block-size means are weighted means", n >= 2, f"{n} found", fi)
    pairing_blocking(ctx, fi)


def _ev(p, fi):
    ev, fr = common.eval_with_terms(p, fi)
    return ev, fr


def pairing_blocking(ctx, fi):
    """Def-use pairing inside blocking_analysis (terms, not text)."""
    from ..rules.match import m_arrcall, m_binop, m_method, product_factors, strip_reshape
    from ..symex import call_parts, const, func_name, getitem, is_const, strip_wrappers, subterms, sym

    p = ctx.p
    ev, fr = _ev(p, fi)
    params = [x.name for x in fi.params]
    W, E, NEQL = sym(params[0]), sym(params[1]), sym(params[2])
    # equilibration cut on both series
    w_cut = e_cut = None
    for e in ev.events:
        if e.kind == "assign" and e.data[0] == params[0] and w_cut is None:
            w_cut = e.data[1]
        if e.kind == "assign" and e.data[0] == params[1] and e_cut is None:
            e_cut = e.data[1]

    def is_cut(t, base):
        return t is not None and t.op == "getitem" and t.args[0] is base and t.args[1].op == "slice" and \
            t.args[1].args[0] is NEQL and is_const(t.args[1].args[1], None)

    if not (is_cut(w_cut, W) and is_cut(e_cut, E)):
        # the cut series may never be bound to the parameter names again (handed to a helper or a carrier object):
        # decided by use -- every use of either series in what the function returns goes through [neql:]
        R_ = ev.result(fr)
        uses = {W: [], E: []}
        for x in subterms(R_):
            for a_ in x.args:
                if a_ is W or a_ is E:
                    uses[a_].append(x)
        cut_w = [x for x in uses[W] if is_cut(x, W)]
        cut_e = [x for x in uses[E] if is_cut(x, E)]
        if cut_w and cut_e:
            w_cut, e_cut = cut_w[0], cut_e[0]
            raw = [show(x, maxdepth=2)[:50] for k_ in (W, E) for x in uses[k_] if not is_cut(x, k_) and
                   not (x.op == "attr" and x.args[1] in ("shape", "size", "dtype", "ndim"))]
            ctx.ob("PAIR-4", "blocking_analysis: the equilibration cut is applied to weights and samples alike", not raw,
                   "every use of either series goes through [neql:]" if not raw else f"uncut use(s): {raw[:2]}", fi)
        else:
            ctx.ob("PAIR-4", "blocking_analysis: the equilibration cut is applied to weights and samples alike",
                   False, f"weights cut: {bool(cut_w)}, samples cut: {bool(cut_e)}", fi)
    else:
        ctx.ob("PAIR-4", "blocking_analysis: the equilibration cut is applied to weights and samples alike",
               True, "weights[neql:], energies[neql:]", fi)
    w_cut = w_cut if w_cut is not None else W
    e_cut = e_cut if e_cut is not None else E
    # stores inside the block loop
    stores = {}
    for e in ev.events:
        if e.kind == "store" and e.loops and len(e.data[1]) == 1:
            stores.setdefault(e.data[0], []).append(e)
    arrays = [k for k in stores]
    ok_blocks, why = False, "block accumulation not found"
    bw_name = be_name = None
    for a in arrays:
        for e in stores[a]:
            v = strip_wrappers(e.data[2])
            mm = m_method(v, "sum")
            if mm is not None and strip_wrappers(mm[0]).op == "getitem" and strip_wrappers(mm[0]).args[0] is w_cut:
                bw_name, bw_ev = a, e
    if bw_name is not None:
        sl_w = strip_wrappers(m_method(strip_wrappers(bw_ev.data[2]), "sum")[0]).args[1]
        j_w = bw_ev.data[1][0]
        for a in arrays:
            for e in stores[a]:
                v = strip_wrappers(e.data[2])
                d = m_binop(v, "/")
                if d is None:
                    continue
                num = m_method(strip_wrappers(d[0]), "sum")
                den = strip_wrappers(d[1])
                if num is None:
                    continue
                src = strip_wrappers(num[0])
                if src.op != "getitem":
                    continue
                be_name = a
                # the two accumulations may sit in one loop over the blocks or in two loops over the same range: the
                # block index of each is its own loop's counter, compared up to that renaming
                j_e = e.data[1][0]
                J = sym("§block")
                from ..symex import substitute as _subst
                two_loops = j_e is not j_w and j_e.op == "iter" and j_w.op == "iter" and j_e.args[0] is j_w.args[0]
                cw = (lambda t: _subst(t, {j_w: J})) if two_loops else (lambda t: t)
                ce = (lambda t: _subst(t, {j_e: J})) if two_loops else (lambda t: t)
                same_slice = ce(src.args[1]) is cw(sl_w)
                we = strip_wrappers(src.args[0])
                mw = m_arrcall(we, "multiply") or (list(m_binop(we, "*")) if m_binop(we, "*") else None)
                is_we = mw is not None and {strip_wrappers(mw[0]).uid, strip_wrappers(mw[1]).uid} == {w_cut.uid, e_cut.uid}
                same_j = j_e is j_w or two_loops
                den_is_bw = strip_wrappers(den) is strip_wrappers(getitem(bw_ev.data[5], j_w)) or \
                    ce(strip_wrappers(den)) is cw(strip_wrappers(bw_ev.data[2]))
                ok_blocks = same_slice and is_we and same_j and den_is_bw
                why = (f"same slice {same_slice}, numerator sums weights*samples {is_we}, same block index {same_j}, "
                       f"divided by that block's weight {den_is_bw}")
    # the same thing for all blocks at once:  X[:nBlocks*i].reshape(nBlocks, i).sum(axis=1)
    vec = None
    strided: List[str] = []
    if bw_name is None:
        def vec_blocks(t):
            if not (t.op == "call" and t.args[0].op == "attr" and t.args[0].args[1] == "sum"):
                return None
            _, ps_, kw_ = call_parts(t)
            ax = kw_.get("axis", ps_[0] if ps_ else None)
            if ax is None or strip_wrappers(ax).op != "const" or strip_wrappers(ax).args[0] not in (0, 1, -1):
                return None
            axis_ = strip_wrappers(ax).args[0] % 2
            r = strip_wrappers(t.args[0].args[0])
            rs_ = m_method(r, "reshape")
            if rs_ is None:
                return None
            dims = list(rs_[1])
            if len(dims) == 1 and strip_wrappers(dims[0]).op == "tuple":
                dims = list(strip_wrappers(dims[0]).args)
            b_ = strip_wrappers(rs_[0])
            if len(dims) != 2 or not (b_.op == "getitem" and b_.args[1].op == "slice" and
                                      is_const(b_.args[1].args[0], None)):
                return None
            if axis_ == 0:
                # reshape(i, nBlocks).sum(axis=0): the summed axis is the slow one -- block j collects the strided
                # samples j, j + nBlocks, ... instead of i consecutive ones (recorded, reported by the geometry rule)
                strided.append(show(t, maxdepth=3)[:70])
                return strip_wrappers(b_.args[0]), b_.args[1].args[1], dims[1], dims[0]
            return strip_wrappers(b_.args[0]), b_.args[1].args[1], dims[0], dims[1]

        cands = []
        seen_c = set()
        for e in ev.events:
            if e.kind == "assign" and e.loops and hasattr(e.data[1], "op"):
                for x in subterms(e.data[1]):
                    if x.uid in seen_c or x.op != "call":
                        continue
                    vb = vec_blocks(x)
                    if vb is not None:
                        seen_c.add(x.uid)
                        cands.append((x, vb))
        wv = [c_ for c_ in cands if c_[1][0] is strip_wrappers(w_cut)]
        ev_ = []
        for c_ in cands:
            we = c_[1][0]
            mw = m_arrcall(we, "multiply") or (list(m_binop(we, "*")) if m_binop(we, "*") else None)
            if mw is not None and {strip_wrappers(mw[0]).uid, strip_wrappers(mw[1]).uid} == {strip_wrappers(w_cut).uid,
                                                                                          strip_wrappers(e_cut).uid}:
                ev_.append(c_)
        if len(wv) == 1 and len(ev_) == 1:
            (we_, (_, n_w, d0w, d1w)), (ee_, (_, n_e, d0e, d1e)) = wv[0], ev_[0]
            same_split = n_w is n_e and d0w is d0e and d1w is d1e

            def unwrap(t):
                t = strip_wrappers(t)
                mm_ = m_method(t, "astype")
                return strip_wrappers(mm_[0]) if mm_ is not None else t
            # block means: the blocked weighted samples divided by the blocked weights
            div_ok = False
            for e in ev.events:
                if e.kind == "assign" and e.loops and hasattr(e.data[1], "op"):
                    for x in subterms(e.data[1]):
                        d = m_binop(x, "/") if x.op == "binop" else None
                        if d is not None and unwrap(d[0]) is ee_ and unwrap(d[1]) is we_:
                            div_ok = True
            ok_blocks = same_split and div_ok
            why = f"vectorised: same [:n].reshape(nBlocks, i) split for weights and weighted samples {same_split}; " \
                  f"block means = blocked weighted samples / blocked weights {div_ok}"
            vec = (n_w, d0w, d1w)
    # segment sums with ufunc.reduceat: the last segment runs to the END of the array, so the series has to be cut to
    # nBlocks * i samples first; on the uncut series the nSamples % i trailing samples are folded into the last block
    tails = []
    for e in ev.events:
        if e.kind == "assign" and e.loops and hasattr(e.data[1], "op"):
            for x in subterms(e.data[1]):
                if x.op == "call" and (func_name(x) or "").endswith(".reduceat"):
                    ra_ = call_parts(x)[1]
                    if len(ra_) >= 2:
                        data, idx = strip_wrappers(ra_[0]), strip_wrappers(ra_[1])
                        ar = m_arrcall(idx, "arange")
                        if ar is not None and len(ar) == 3:
                            stop = strip_wrappers(ar[1])
                            cut = data.op == "getitem" and data.args[1].op == "slice" and \
                                strip_wrappers(data.args[1].args[1]) is stop if data.op == "getitem" and \
                                len(data.args[1].args) >= 2 and hasattr(data.args[1].args[1], "op") else False
                            if not cut and x.uid not in {t_.uid for t_, _ in tails}:
                                tails.append((x, show(data, maxdepth=2)[:40]))
    if tails:
        ctx.ob("PAIR-4", "blocking_analysis: blocks are consecutive slices [j*i, (j+1)*i) and nBlocks = nSamples // i", False,
               f"reduceat over segment starts arange(0, n, i) on the uncut series {tails[0][1]}: the last segment runs to the end "
               f"of the array and takes the nSamples % i trailing samples with it", fi)
    if bw_name is None and vec is None:
        ctx.rep.note("blocking_analysis: neither the per-block loop nor the reshape(nBlocks, i).sum(axis=1) form of the block "
                     "sums was found; the block pairing rules (PAIR-4) are not applicable to this shape of the code")
    else:
        ctx.ob("PAIR-4", "blocking_analysis: block j sums one slice of the weights and of the weighted samples and "
               "divides by its own block weight", ok_blocks, why, fi)
    # slice is [j*i : (j+1)*i] of block size i, nBlocks = nSamples // i
    ok_geo = False
    geo_unread = False      # the slice bounds are not written as products of the block index and the block size
    if bw_name is not None:
        lo, hi = sl_w.args[0], sl_w.args[1]

        def poly(t):
            """polynomial normal form over opaque atoms: {sorted tuple of atom uids: coefficient}"""
            t = strip_wrappers(t)
            if t.op == "const" and isinstance(t.args[0], (int, float)) and not isinstance(t.args[0], bool):
                return {(): t.args[0]} if t.args[0] != 0 else {}
            if t.op == "binop" and t.args[0] in ("+", "-"):
                a_, b_ = poly(t.args[1]), poly(t.args[2])
                out = dict(a_)
                for k_, v_ in b_.items():
                    out[k_] = out.get(k_, 0) + (v_ if t.args[0] == "+" else -v_)
                return {k_: v_ for k_, v_ in out.items() if v_ != 0}
            if t.op == "binop" and t.args[0] == "*":
                a_, b_ = poly(t.args[1]), poly(t.args[2])
                out = {}
                for k1, v1 in a_.items():
                    for k2, v2 in b_.items():
                        k_ = tuple(sorted(k1 + k2))
                        out[k_] = out.get(k_, 0) + v1 * v2
                return {k_: v_ for k_, v_ in out.items() if v_ != 0}
            return {(t.uid,): 1}

        pl, ph = poly(lo), poly(hi)
        m1 = None
        _ju = strip_wrappers(j_w).uid
        if not any(_ju in mono_ for mono_ in list(pl) + list(ph)):
            # bounds taken from a precomputed edge sequence (pairwise(range(0, n + 1, i)), zip(edges[:-1], edges[1:]) ...):
            # the geometry is in that sequence, which this rule does not read
            geo_unread = True
        if len(pl) == 1 and list(pl.values()) == [1] and len(next(iter(pl))) == 2:
            mono = next(iter(pl))
            ju = strip_wrappers(j_w).uid
            if ju in mono:
                iu = [u for u in mono if u != ju] or [ju]
                want_hi = dict(pl)
                want_hi[(iu[0],)] = want_hi.get((iu[0],), 0) + 1
                if ph == want_hi:
                    m1 = True
                    iv = next((x for x in subterms(lo) if x.uid == iu[0]), None)
        if m1 and iv is not None:
            ok_geo = True
            nb = None
            for e in ev.events:
                if e.kind == "assign" and e.loops and m_binop(strip_wrappers(e.data[1]), "//") is not None:
                    q = m_binop(strip_wrappers(e.data[1]), "//")
                    if q[1] is iv:
                        nb = e.data[1]
            if nb is None:
                # the block count may be handed on without a name of its own: read it off the block loop's range
                jw = strip_wrappers(j_w)
                if jw.op == "iter" and hasattr(jw.args[0], "op") and jw.args[0].op == "call":
                    ra_ = call_parts(jw.args[0])[1]
                    if len(ra_) == 1:
                        q = m_binop(strip_wrappers(ra_[0]), "//")
                        if q is not None and strip_wrappers(q[1]) is strip_wrappers(iv):
                            nb = ra_[0]
            ok_geo = ok_geo and nb is not None
    if vec is not None:
        n_w, d0, d1 = vec
        # n == nBlocks * i with nBlocks = <length> // i
        q = m_binop(strip_wrappers(d0), "//")
        iv = strip_wrappers(d1)
        pn = m_binop(strip_wrappers(n_w), "*")
        ok_geo = q is not None and strip_wrappers(q[1]) is iv and pn is not None and \
            {strip_wrappers(pn[0]).uid, strip_wrappers(pn[1]).uid} == {strip_wrappers(d0).uid, iv.uid} and not strided
    if geo_unread and vec is None:
        ctx.rep.note("blocking_analysis: the block slice bounds are not expressions of the block index; the consecutive-slices "
                     "rule (PAIR-4) is not applied to this shape of the code")
    elif bw_name is not None or vec is not None:
        ctx.ob("PAIR-4", "blocking_analysis: blocks are consecutive slices [j*i, (j+1)*i) and nBlocks = nSamples // i",
               ok_geo, (f"blocks are strided, not consecutive: {strided[:2]}" if strided else ""), fi)
    # error = sqrt( sum(bw * (be - mean)^2) / (v1 - v2/v1) / (nBlocks - 1) )
    err = None
    for e in ev.events:
        if e.kind == "assign" and e.loops:
            v = strip_wrappers(e.data[1])
            pw = m_binop(v, "**")
            if pw is not None and pw[1].op == "const" and pw[1].args[0] == 0.5:
                err = pw[0]
    ok_err, why_e = False, "error expression not found"
    if err is not None:
        d1 = m_binop(strip_wrappers(err), "/")
        if d1 is not None:
            nbm1 = m_binop(strip_wrappers(d1[1]), "-")
            d2 = m_binop(strip_wrappers(d1[0]), "/")
            if nbm1 is not None and is_const(nbm1[1], 1) and d2 is not None:
                norm = m_binop(strip_wrappers(d2[1]), "-")
                num = m_method(strip_wrappers(d2[0]), "sum")
                ok_norm = False
                if norm is not None:
                    v1 = strip_wrappers(norm[0])
                    q = m_binop(strip_wrappers(norm[1]), "/")
                    s1 = m_method(v1, "sum")
                    if q is not None and s1 is not None and strip_wrappers(q[1]) is v1:
                        v2 = m_method(strip_wrappers(q[0]), "sum")
                        if v2 is not None:
                            sq = m_binop(strip_wrappers(v2[0]), "**")
                            ok_norm = sq is not None and is_const(sq[1], 2) and strip_wrappers(sq[0]) is strip_wrappers(s1[0])
                ok_dev = False
                if num is not None:
                    pr = m_arrcall(strip_wrappers(num[0]), "multiply") or (
                        list(m_binop(strip_wrappers(num[0]), "*")) if m_binop(strip_wrappers(num[0]), "*") else None)
                    if pr is not None:
                        for a_, b_ in ((pr[0], pr[1]), (pr[1], pr[0])):
                            sq = m_binop(strip_wrappers(b_), "**")
                            if sq is not None and is_const(sq[1], 2):
                                dv = m_binop(strip_wrappers(sq[0]), "-")
                                if dv is not None:
                                    wm = common.wmean(dv[1])
                                    ok_dev = wm is not None and wm[0] and strip_wrappers(a_) is wm[3] and \
                                        any(x is strip_wrappers(dv[0]) for x in map(strip_wrappers, product_factors(wm[2])))
                ok_err = ok_norm and ok_dev
                why_e = (f"normaliser v1 - v2/v1 of the block weights: {ok_norm}; deviations of the block means from "
                         f"their weighted mean, weighted by the block weights: {ok_dev}")
    ctx.ob("PAIR-4", "blocking_analysis: error = sqrt(sum w_b (e_b - mean)^2 / (v1 - v2/v1) / (nBlocks - 1))",
           ok_err, why_e, fi)


def outliers(ctx):
    from ..rules.match import m_arrcall, m_binop, m_cmp
    from ..symex import T, call_parts, const, func_name, getitem, is_const, strip_wrappers, subterms, sym

    p = ctx.p
    fi = p.func("stat_utils.reject_outliers")
    ev, fr = _ev(p, fi)
    R = ev.result(fr)
    params = [x.name for x in fi.params]
    data, obs, m = sym(params[0]), sym(params[1]), sym(params[2])
    ok_mask = R.op == "tuple" and len(R.args) == 2 and R.args[0].op == "getitem" and R.args[0].args[0] is data and \
        R.args[0].args[1] is R.args[1]
    ctx.ob("PAIR-4", "reject_outliers: the returned mask is the mask that filtered the data", ok_mask,
           show(R, maxdepth=2)[:100], fi)
    ok_dev, ok_thr = False, False
    if ok_mask:
        cm = m_cmp(R.args[1])
        if cm is not None and cm[0] == "<" and cm[2] is m:
            ok_thr = True
            s = cm[1]

            def abs_inner(t, depth=0):
                """the X of a two-sided distance: |X|, |X| / scale, |X / scale|, (|X| / scale if scale else 0)"""
                t = strip_wrappers(t)
                if depth > 6:
                    return None
                if t.op in ("ifexp", "phi"):
                    arms = [abs_inner(a, depth + 1) for a in t.args[1:] if not (a.op == "const")]
                    return arms[0] if len(arms) == 1 else (arms[0] if arms and all(a is arms[0] for a in arms) else None)
                ab = m_arrcall(t, "abs", "absolute", "fabs") if t.op == "call" else None
                if ab is None and t.op == "call" and func_name(t) == "builtins.abs":
                    ab = call_parts(t)[1]
                if ab is not None:
                    inner = strip_wrappers(ab[0])
                    dv = m_binop(inner, "/")
                    return strip_wrappers(dv[0]) if dv is not None else inner
                dv = m_binop(t, "/")
                if dv is not None:
                    return abs_inner(dv[0], depth + 1)
                return None

            X = abs_inner(s)
            d = m_binop(X, "-") if X is not None else None
            if d is not None:
                med = m_arrcall(strip_wrappers(d[1]), "median")
                c0 = strip_wrappers(d[0])
                if med is not None and strip_wrappers(med[0]) is c0 and c0.op == "getitem" and \
                        c0.args[0] is data and c0.args[1].op == "tuple" and c0.args[1].args[1] is obs:
                    ok_dev = True
    ctx.ob("PAIR-4", "reject_outliers: the tested quantity is the absolute (two-sided) deviation of the column "
           "from its own median", ok_dev, "" if ok_dev else "the value compared with m is not |col - median(col)| / scale", fi)
    ctx.ob("PAIR-4", "reject_outliers: rows are kept when the scaled deviation is below m", ok_thr, "", fi)
    # scale = median of the deviations
    ok_scale = any(x.op == "call" and m_arrcall(x, "median") is not None and any(
        y.op == "call" and m_arrcall(y, "abs") is not None for y in subterms(call_parts(x)[1][0]))
        for x in subterms(R))
    ctx.ob("PAIR-4", "reject_outliers: the scale is the median absolute deviation", ok_scale, "", fi)
    # ... of *all* rows: a median over a selection of the deviations (d[d > 0], d[1:], ...) is another scale
    subset = []
    for x in subterms(R):
        if x.op == "call" and m_arrcall(x, "median") is not None:
            a0 = strip_wrappers(call_parts(x)[1][0])
            if a0.op == "getitem" and any(y.op == "call" and m_arrcall(y, "abs") is not None
                                          for y in subterms(strip_wrappers(a0.args[0]))) and \
                    not (a0.args[0] is data):
                subset.append(show(a0, maxdepth=2)[:60])
    if ok_scale:
        ctx.ob("PAIR-4", "reject_outliers: the median absolute deviation is taken over every row", not subset,
               f"median of a selection of the deviations: {subset}" if subset else "median(|col - median(col)|)", fi)
    # driver
    drv = p.func("driver.afqmc")
    dev, dfr = _ev(p, drv)
    calls = [e.data for e in dev.events if e.kind == "call" and (func_name(e.data) or "").endswith("reject_outliers")]
    ctx.ob("PAIR-4", "driver.afqmc: outlier rejection is applied", len(calls) >= 2, f"{len(calls)} call sites", drv)

    def only_masks(t):
        for x in subterms(t):
            if x.op == "getitem" and x.args[0].op == "call" and (func_name(x.args[0]) or "").endswith("reject_outliers"):
                if not is_const(x.args[1], 1):
                    return False
        return any(x.op == "call" and (func_name(x) or "").endswith("reject_outliers") for x in subterms(t))

    # per-block density matrices: (a) whatever is indexed with a result of reject_outliers is indexed with the mask
    # (result [1]); (b) when the filtered weights of one reject_outliers call weight a per-block array in a
    # contraction, that array carries the mask of the same call -- decided on the value graph, names play no role
    def outer_results(t):
        """(call, result index) of the outermost reject_outliers results in t (arguments of such a call are not searched:
        the second filter is applied to the output of the first)"""
        out, stack, seen_ = [], [t], set()
        while stack:
            x = stack.pop()
            if x.uid in seen_:
                continue
            seen_.add(x.uid)
            if x.op == "getitem" and x.args[0].op == "call" and (func_name(x.args[0]) or "").endswith("reject_outliers") \
                    and x.args[1].op == "const":
                out.append((x.args[0], x.args[1].args[0]))
                continue
            if x.op == "call" and (func_name(x) or "").endswith("reject_outliers"):
                continue
            if x.op == "iter":
                continue            # a loop counter over range(len(filtered)): counts the kept rows, selects nothing
            stack.extend(a_ for a_ in x.args if hasattr(a_, "op"))
        return out

    def ro_parts(t, which):
        return [c_ for c_, k_ in outer_results(t) if k_ == which]

    masked_ok, n_masked = True, 0
    pair_ok, n_pairs = True, 0
    seen_terms = set()
    for e in dev.events:
        vals = [e.data[1]] if e.kind == "assign" else ([e.data] if e.kind == "call" else [])
        for val in vals:
            for x in subterms(val):
                if x.uid in seen_terms:
                    continue
                seen_terms.add(x.uid)
                if x.op == "getitem" and x.args[1].op not in ("const", "slice", "tuple"):
                    res_ = outer_results(x.args[1])
                    if res_:
                        n_masked += 1
                        masked_ok = masked_ok and all(k_ == 1 for _, k_ in res_)
                if x.op == "call" and (func_name(x) or "").split(".")[-1] in ("stack", "column_stack", "vstack") and \
                        call_parts(x)[1] and call_parts(x)[1][0].op in ("tuple", "list"):
                    elems = list(call_parts(x)[1][0].args)
                    for wt in elems:
                        src = ro_parts(wt, 0)
                        if src and not ro_parts(wt, 1):
                            for arr in elems:
                                a0 = strip_wrappers(arr)
                                is_col = a0.op == "getitem" and a0.args[1].op == "tuple" and \
                                    strip_wrappers(a0.args[0]).op == "getitem" and \
                                    any(strip_wrappers(a0.args[0]).args[0] is c_ for c_ in src)
                                if arr is wt or is_col:
                                    continue
                                n_pairs += 1
                                pair_ok = pair_ok and any(m_ in src for m_ in ro_parts(arr, 1))
                if x.op == "call" and (func_name(x) or "").endswith("einsum"):
                    ops = call_parts(x)[1][1:]
                    if len(ops) == 2:
                        for wt, arr in ((ops[0], ops[1]), (ops[1], ops[0])):
                            src = ro_parts(wt, 0)
                            if src and not ro_parts(wt, 1):
                                n_pairs += 1
                                masks = ro_parts(arr, 1)
                                pair_ok = pair_ok and any(m_ is src[0] or m_ in src for m_ in masks)
    ctx.ob("PAIR-4", "driver.afqmc: per-block density matrices are filtered with the mask reject_outliers returned",
           masked_ok and n_masked >= 2 and pair_ok and n_pairs >= 2,
           f"{n_masked} arrays indexed by a reject_outliers result (all by the mask: {masked_ok}); {n_pairs} weighted "
           f"averages pair filtered weights with arrays masked by the same call: {pair_ok}", drv)
    # which column: the observable column (2) exactly when an observable is sampled (ad_mode set and not '2rdm'), the
    # energy column (1) otherwise -- written as two calls under an if / else or as one call with a selected column
    ro_fi = p.func("stat_utils.reject_outliers")

    def ro_args(c_):
        """arguments of a reject_outliers call in the order of its parameters (keywords bound to their positions)"""
        from ..model import bind_call
        _, pos_, kws_ = call_parts(c_)
        okb_, _, mp_ = bind_call(ro_fi, len(pos_), list(kws_), False)
        if not okb_:
            return list(pos_)
        out_ = []
        for prm_ in ro_fi.pos_params():
            m_ = mp_.get(prm_.name)
            if m_ is None:
                break
            out_.append(pos_[m_[1]] if m_[0] == "pos" else kws_[m_[1]])
        return out_
    main = [c_ for c_ in calls if ro_args(c_) and not any(True for _ in outer_results(ro_args(c_)[0]))] if calls else []

    # The column is read off per value of options['ad_mode'] (None / 'forward' / 'reverse' / '2rdm', the values
    # mpi_jax admits): the conditions a call sits under and the conditions of a selected column are evaluated for that
    # value, however they are phrased (if / else, match, conditional expression, negated or de-Morganed tests).
    def mentions_mode(t_):
        return any(x.op == "const" and x.args[0] == "ad_mode" for x in subterms(t_))

    def evalc(c_, v):
        """truth of condition c_ when options['ad_mode'] == v; None: not a test of ad_mode alone"""
        c_ = strip_wrappers(c_)
        if c_.op == "const" and isinstance(c_.args[0], bool):
            return c_.args[0]
        if c_.op == "unop" and c_.args[0] == "not":
            r_ = evalc(c_.args[1], v)
            return None if r_ is None else not r_
        if c_.op == "boolop":
            rs_ = [evalc(a_, v) for a_ in c_.args[1:]]
            if c_.args[0] == "or":
                return True if any(r_ is True for r_ in rs_) else (None if any(r_ is None for r_ in rs_) else False)
            return False if any(r_ is False for r_ in rs_) else (None if any(r_ is None for r_ in rs_) else True)
        if c_.op == "cmp" and len(c_.args) == 3:
            o_, a_, b_ = c_.args
            a_, b_ = strip_wrappers(a_), strip_wrappers(b_)
            if o_ in ("in", "not in") and mentions_mode(a_) and a_.op == "getitem" and b_.op in ("tuple", "list", "set") \
                    and all(x.op == "const" for x in b_.args):
                r_ = v in [x.args[0] for x in b_.args]
                return r_ if o_ == "in" else not r_
            if b_.op != "const" and a_.op == "const":
                a_, b_ = b_, a_
            if b_.op == "const" and a_.op == "getitem" and mentions_mode(a_) and o_ in ("==", "!=", "is", "is not"):
                r_ = (v == b_.args[0]) if b_.args[0] is not None else (v is None)
                return r_ if o_ in ("==", "is") else not r_
        if c_.op == "getitem" and mentions_mode(c_):          # truthiness of the mode itself
            return bool(v)
        return None

    def column(t_, v):
        t_ = strip_wrappers(t_)
        while t_.op in ("phi", "ifexp"):
            r_ = evalc(t_.args[0], v)
            if r_ is None:
                return None
            t_ = strip_wrappers(t_.args[1] if r_ else t_.args[2])
        return t_.args[0] if t_.op == "const" else None

    per_mode = {}
    for v in (None, "forward", "reverse", "2rdm"):
        cols = []
        for c_ in main:
            live = True
            for e in dev.events:
                if e.kind == "call" and e.data is c_:
                    for cnd_, pol_ in (e.path or ()):
                        if isinstance(cnd_, T) and mentions_mode(cnd_):
                            r_ = evalc(cnd_, v)
                            live = None if (r_ is None or live is None) else (live and r_ == pol_)
                    break
            if live is None:
                cols.append(None)
            elif live:
                pos = ro_args(c_)
                cols.append(column(pos[1], v) if len(pos) > 1 else None)
        per_mode[v] = cols
    want = {None: 1, "2rdm": 1, "forward": 2, "reverse": 2}
    undecided = not main or any(None in cs_ or len(cs_) != 1 for cs_ in per_mode.values())
    ok_col = not undecided and all(per_mode[v] == [want[v]] for v in want)
    detail = "; ".join(f"ad_mode={v!r}: column {per_mode[v]}" for v in want)
    if undecided and main:
        ctx.rep.note(f"driver.afqmc: the column handed to reject_outliers is not a function of options['ad_mode'] alone "
                     f"that this rule can evaluate ({detail}); the column rule is not applied")
    else:
        ctx.ob("PAIR-4", "driver.afqmc: outliers are judged on the observable column exactly when an observable is sampled",
               ok_col, detail if main else "no first-stage reject_outliers call", drv)


def jackknife(ctx):
    from ..rules.match import m_arrcall, m_binop
    from ..symex import const, getitem, is_const, strip_wrappers, subterms, sym

    p = ctx.p
    fi = p.func("stat_utils.jackknife_ratios")
    ev, fr = _ev(p, fi)
    num, den = sym(fi.params[0].name), sym(fi.params[1].name)
    est_store = [e for e in ev.events if e.kind == "store" and e.loops]
    ok, why = False, "leave-one-out store not found"
    v = None
    if est_store:
        e = est_store[-1]
        i = e.data[1][0]
        v = strip_wrappers(e.data[2])
        if v.op == "attr" and v.args[1] == "real":
            v = strip_wrappers(v.args[0])
        d = m_binop(v, "/")
        if d is not None:
            def loo(t, series):
                q = m_binop(strip_wrappers(t), "/")
                if q is None:
                    return None
                dn = m_binop(strip_wrappers(q[1]), "-")
                nm = m_binop(strip_wrappers(q[0]), "-")
                if dn is None or nm is None or not is_const(dn[1], 1):
                    return None
                n_ = dn[0]
                tot = m_binop(strip_wrappers(nm[0]), "*")
                rem = strip_wrappers(nm[1])
                if tot is None or not (rem.op == "getitem" and rem.args[0] is series and rem.args[1] is i):
                    return None
                mean_ok = any(strip_wrappers(x).op == "call" and m_arrcall(strip_wrappers(x), "mean") is not None and
                              strip_wrappers(m_arrcall(strip_wrappers(x), "mean")[0]) is series for x in tot)
                n_ok = any(x is n_ for x in tot)
                return n_ if (mean_ok and n_ok) else None
            n1, n2 = loo(d[0], num), loo(d[1], den)
            ok = n1 is not None and n1 is n2
            why = "ratio of the two leave-one-out means over n - 1, same i and n" if ok else \
                "numerator / denominator leave-one-out means are not built alike"
            if n1 is None and n2 is None:
                why = "unread"
    if why in ("leave-one-out store not found", "unread") or (est_store and not ok and m_binop(v, "/") is None):
        # the leave-one-out ratios come out of a helper / generator or are written in a form this rule does not read:
        # nothing identified, nothing judged
        ctx.rep.note("jackknife_ratios: the in-loop store of (mean_num_(i) / mean_denom_(i)) was not identified; the "
                     "leave-one-out pairing rule (PAIR-4) does not apply to this shape of the code")
    else:
        ctx.ob("PAIR-4", "jackknife_ratios: sample i is removed from both means, both divided by n - 1", ok, why, fi)
    R = ev.result(fr)
    # Re(a / b) is not Re(a) / Re(b): a ratio whose numerator and denominator are the real parts of quantities built from the
    # numerator / denominator series is a positive witness (identical for real samples, wrong for complex ones)
    def _count_only(t):
        """t depends on the series at most through their length (x.size, x.shape[0], len(x))"""
        from ..symex import substitute
        blank = {}
        for x in subterms(t):
            if (x.op == "attr" and x.args[1] in ("size", "shape") and (x.args[0] is num or x.args[0] is den)) or \
                    (x.op == "call" and func_name(x) == "builtins.len" and len(x.args) == 2 and (x.args[1] is num or x.args[1] is den)):
                blank[x] = sym("§n")
        t2 = substitute(t, blank) if blank else t
        return not any(x is num or x is den for x in subterms(t2))

    def _is_real_of(t, series):
        t = strip_wrappers(t)
        inner = None
        if t.op == "attr" and t.args[1] == "real":
            inner = t.args[0]
        elif t.op == "call" and m_arrcall(t, "real") is not None:
            inner = m_arrcall(t, "real")[0]
        elif t.op == "binop" and t.args[0] in ("/", "*") and _count_only(t.args[2]):
            return _is_real_of(t.args[1], series)          # Re(x) / (n - 1)
        elif t.op == "call" and t.args[0].op == "attr" and t.args[0].args[1] == "astype":
            return _is_real_of(t.args[0].args[0], series)
        return inner is not None and any(x is series for x in subterms(inner))
    split = [x for x in subterms(R) if x.op == "binop" and x.args[0] == "/" and _is_real_of(x.args[1], num)
             and _is_real_of(x.args[2], den)]
    if split:
        ctx.ob("PAIR-4", "jackknife_ratios: the real part is taken of the ratio, not of numerator and denominator separately",
               False, f"{show(split[0], maxdepth=2)[:80]}: Re(a) / Re(b) for Re(a / b)", fi)
    ok_s = False
    est = None
    if R.op == "tuple" and len(R.args) == 2:
        sg = m_arrcall(strip_wrappers(R.args[1]), "sqrt")
        if sg is not None:
            m = m_binop(strip_wrappers(sg[0]), "*")
            if m is not None:
                for a, b in ((m[0], m[1]), (m[1], m[0])):
                    d = m_binop(strip_wrappers(a), "-")
                    vr = m_arrcall(strip_wrappers(b), "var")
                    if d is not None and is_const(d[1], 1) and vr is not None:
                        ok_s = True
                        est = strip_wrappers(vr[0])
    ctx.ob("PAIR-4", "jackknife_ratios: sigma = sqrt((n - 1) * var(leave-one-out estimates))", ok_s, "", fi)
    if ok_s and est is not None:
        # np.var of a complex array is E|z - <z>|^2: the imaginary fluctuations of the ratios enter sigma unless the real
        # part is taken before the variance (the loop stores (a / b).real).  Witness: no real-part operation anywhere in
        # the array whose variance is taken, although it is a ratio of series-dependent values
        has_real = any((x.op == "attr" and x.args[1] == "real") or (x.op == "call" and m_arrcall(x, "real") is not None)
                       for x in subterms(est))
        has_ratio = any(x.op == "binop" and x.args[0] == "/" and any(y is num for y in subterms(x.args[1]))
                        and any(y is den for y in subterms(x.args[2])) for x in subterms(est))
        if has_ratio and not has_real:
            ctx.ob("PAIR-4", "jackknife_ratios: sigma is the spread of the real parts of the leave-one-out ratios", False,
                   f"var({show(est, maxdepth=2)[:60]}) is taken of the complex ratios: no real part before the variance", fi)
        # the estimator the brute-force leave-one-out computation gives is the average of the leave-one-out ratios (the array
        # whose variance makes sigma); the plain ratio of the full-sample means differs from it by the O(1/n) jackknife bias
        mean_t = strip_wrappers(R.args[0])
        uses = any(x is est for x in subterms(mean_t))
        ctx.ob("PAIR-4", "jackknife_ratios: the returned estimate averages the leave-one-out ratios", uses,
               "mean over the same array as sigma's variance" if uses else
               f"returns {show(mean_t, maxdepth=3)[:70]}, which does not read the leave-one-out estimates", fi)


def run(ctx):
    blocking(ctx)
    outliers(ctx)
    jackknife(ctx)
