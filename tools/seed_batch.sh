#!/bin/bash
# usage: tools/seed_batch.sh <root>      e.g. /tmp/seed2
# Confirms every <root>/Cxx.out/patchK.diff (scratch worktrees, 10 at a time, in the background) and evaluates each
# against all 20 checks (sequentially on /repo: apply, run, checkout).  Writes confirmK.txt / evalK.json / evalK.txt.
root=${1:-/tmp/seed}
ls $root/C??.out/patch*.diff | while read p; do
  d=$(dirname $p); k=$(basename $p .diff); k=${k#patch}; id=$(basename $d .out)
  echo "$p $d/demo$k.py ${id}_$k $d/confirm$k.txt"
done > $root/confirm.list
( cat $root/confirm.list | xargs -P 10 -L 1 bash -c '/verif/tools/seed_confirm.sh $0 $1 $2 > $3 2>&1' ) &
ls $root/C??.out/patch*.diff | while read p; do
  d=$(dirname $p); k=$(basename $p .diff); k=${k#patch}
  /venv/bin/python /verif/tools/seed_eval.py $p --json $d/eval$k.json 2>&1 | grep -v "WARNING conda" > $d/eval$k.txt
done
wait
echo batch-done
