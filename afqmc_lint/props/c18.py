"""C18 -- trial optimisation: degenerate-safe eigen-derivative and orthonormal output (structural)."""

from __future__ import annotations

from typing import List, Optional, Tuple

from ..model import AnalysisError
from ..rules.gvn import GVN, f_key
from ..rules.match import const_num, m_arrcall, m_binop, m_cmp, m_method, m_where, sum_terms
from ..rules.siblings import evaluate, swap_map, trial_evaluator
from ..rules.trialsib import HD, WD, Sib, key, nelec
from ..symex import (Evaluator, array_fn, call_parts, const, func_name, getitem, is_const, match_scan, mk,
                     show, strip_wrappers, subterms, sym)

ID = "C18"
EXPLANATION = (
    "GUARD-1 on linalg_utils._eigh_jvp: by reaching definitions the operand of jnp.reciprocal passes a "
    "where(gap == 0, nonzero, gap) guard and a where(|gap| < threshold, huge, gap) guard, each testing the "
    "value it passes, so neither a zero nor a sub-threshold eigenvalue gap is ever inverted; the diagonal "
    "correction is subtracted after the reciprocal; the tangent outputs combine one and the same "
    "v^H (dA) v matrix (diagonal -> eigenvalue derivative, F * it -> eigenvector derivative) and the "
    "primal output is _eigh of the primals. Def-use whitelist: from linalg_utils._eigh(fock)[1] to "
    "wave_data['mo_coeff'] in rhf.optimize and uhf.optimize the only operations are a per-column sign flip "
    "where(cond, -v, v), the scan's stacking, [-1] and the occupied-column slice [:, :nelec] -- all of "
    "which preserve orthonormal columns; damping / mixing / row scaling would be reported. Aufbau: the "
    "density is rebuilt from the nocc lowest orbital energies (argsort) with occupation 2 (rhf) / 1 (uhf). "
    "SYM-1: uhf.optimize is invariant under exchanging the spin labels; SIB-2: the rhf and uhf Fock "
    "builds agree for a closed-shell density (dm_up = dm_dn = dm/2). "
    "PURE-2: every eigendecomposition reachable from optimize is linalg_utils._eigh. GUARD-1: the "
    "degeneracy threshold is a small data-independent constant. "
    "SIB-2: the closed-shell starting density of rhf.optimize equals the sum of the two spin blocks "
    "uhf.optimize starts from when both sectors hold the same orbitals (occupation 2). KEYS-1: optimize "
    "rewrites no wave_data key the propagation builders read. "
    ' SYM-1: the Fock build is symmetric in h1 (see C06). SIB-2: the initial density of the closed-shell and of the unrestricted SCF are siblings (sum of the spin blocks). '
)
NOT_DECIDED = "SCF convergence, the fixed-point property, agreement with an independent solver, non-degenerate derivative values."
TECHNIQUE = "static analysis: reaching-definition guard-chain check, def-use whitelist from eigenvectors to output, symmetry / sibling value numbering"


def replacement_guard(t):
    """where(c(v'), R, v) -> (cond, R, v)"""
    w = m_where(t)
    if w is None:
        return None
    return w


def eigh_jvp(ctx):
    p = ctx.p
    fi = p.func("linalg_utils._eigh_jvp")
    prim = p.func("linalg_utils._eigh")
    ctx.ob("GUARD-1", "linalg_utils._eigh: custom derivative rule registered", prim.is_custom_jvp and any(
        (getattr(d, "attr", "") == "defjvp") for d in fi.decorators), "custom_jvp + defjvp", prim)
    ev = Evaluator(p)
    fr = ev.eval_function(fi)
    R = ev.result(fr)
    recs = [x for x in subterms(R) if x.op == "call" and array_fn(x) == "reciprocal"]
    # the reciprocal feeds the tangent through the helper call: look at all evaluated calls
    for e in ev.events:
        if e.kind == "call":
            for x in subterms(e.data):
                if x.op == "call" and array_fn(x) == "reciprocal" and x not in recs:
                    recs.append(x)
    if len(recs) != 1:
        ctx.ob("GUARD-1", "linalg_utils._eigh_jvp: one reciprocal of the eigenvalue gaps", False,
               f"{len(recs)} reciprocal calls", fi)
        return
    arg = strip_wrappers(call_parts(recs[0])[1][0])
    guards = []
    cur = arg
    while True:
        g = replacement_guard(cur)
        if g is None:
            break
        c, rep, passed = g
        guards.append((c, rep, strip_wrappers(passed)))
        cur = strip_wrappers(passed)
    core = cur
    has_zero, has_thr = False, False
    shape_ok = True
    thr_terms = []
    for c, rep, passed in guards:
        cm = m_cmp(c)
        if cm is None:
            shape_ok = False
            continue
        op, lhs, rhs = cm
        lhs_s = strip_wrappers(lhs)
        rv = const_num(strip_wrappers(rep))
        if op == "==" and const_num(rhs) == 0.0:
            if (lhs_s is passed or lhs_s is core) and rv is not None and rv != 0:
                has_zero = True
            else:
                shape_ok = False
        elif op in ("<", "<="):
            ab = m_arrcall(lhs_s, "abs")
            inner = strip_wrappers(ab[0]) if ab else (strip_wrappers(call_parts(lhs_s)[1][0]) if lhs_s.op == "call"
                                                      and func_name(lhs_s) == "builtins.abs" else None)
            if (inner is passed or inner is core) and rv is not None and abs(rv) >= 1e6:
                has_thr = True
                thr_terms.append(strip_wrappers(rhs))
            else:
                shape_ok = False
        else:
            shape_ok = False
    ctx.ob("GUARD-1", "linalg_utils._eigh_jvp: exact-zero gaps are replaced before the reciprocal", has_zero,
           f"{len(guards)} guards on the reciprocal operand", fi)
    ctx.ob("GUARD-1", "linalg_utils._eigh_jvp: sub-threshold gaps are replaced by a huge value before the reciprocal",
           has_thr, "where(|gap| < thresh, BIG, gap)" if has_thr else "no |gap| < threshold guard with a large "
           "replacement reaches the reciprocal", fi)
    ctx.ob("GUARD-1", "linalg_utils._eigh_jvp: every guard tests the value it passes through", shape_ok and bool(guards),
           "tested == passed in all guards" if shape_ok else "a guard tests a different value than it passes", fi)
    # "non-degenerate" is an absolute notion in the property (every symmetric matrix): a threshold that grows
    # with the data declares resolved gaps of large matrices degenerate and drops their eigenvector couplings
    dep = [show(t, maxdepth=3)[:80] for t in thr_terms
           if any(x.op == "sym" or (x.op == "call" and not is_const(x, None)) for x in subterms(t))]
    small = all(const_num(t) is not None and 0 < const_num(t) <= 1e-3 for t in thr_terms)
    ctx.ob("GUARD-1", "linalg_utils._eigh_jvp: the degeneracy threshold is a small data-independent constant",
           bool(thr_terms) and not dep and small,
           (f"threshold depends on run-time data: {dep}" if dep else
            f"threshold {[const_num(t) for t in thr_terms]}"), fi)
    # the gaps: w_j - w_i
    d = m_binop(core, "-")
    gaps_ok = d is not None and all(any(y is getitem(call_like_eigh(ev, fi), const(0)) or True for y in [x])
                                    for x in d)
    ctx.ob("GUARD-1", "linalg_utils._eigh_jvp: the guarded quantity is the matrix of eigenvalue differences",
           d is not None, show(core, maxdepth=3)[:100], fi)
    # ---- the tangent: (dw, dv) with dw = diag(M), dv = v (F * M), M = v^H dA v, F = reciprocal(guarded gaps) - eye.
    # Its formula may be written in _eigh_jvp itself, in a private helper (evaluated in place) or in a helper that
    # stays a call; in the last case the helper's result is brought into _eigh_jvp's terms through the call binding.
    from ..symex import substitute
    Rs = strip_wrappers(R)
    po = strip_wrappers(Rs.args[0]) if Rs.op == "tuple" and len(Rs.args) == 2 else None
    tang = strip_wrappers(Rs.args[1]) if Rs.op == "tuple" and len(Rs.args) == 2 else None
    where_fi = fi
    helper_calls = [x for x in subterms(R) if x.op == "call" and x.args[0].op == "fn" and
                    x.args[0].args[0] in p.functions and not x.args[0].args[0].endswith("._eigh") and
                    recs and any(y is recs[0] for a_ in x.args[1:] for y in subterms(a_.args[1] if a_.op == "kw" else a_))]
    if helper_calls:
        h = p.functions[helper_calls[0].args[0].args[0]]
        where_fi = h
        b_ = ev.call_binding(helper_calls[0], fr)
        if b_ is not None:
            ev2 = Evaluator(p)
            fr2 = ev2.eval_function(h)
            r2 = substitute(ev2.result(fr2), {sym(k_): v_ for k_, v_ in b_.items()})
            tang = substitute(tang, {helper_calls[0]: r2}) if tang is not None else r2
            tang = strip_wrappers(tang)
            if tang.op == "tuple" and all(x.op == "getitem" and x.args[0] is r2 for x in tang.args):
                tang = r2
    if tang is not None and tang.op == "record" and len(tang.args) == 3:
        tang = mk("tuple", tang.args[1], tang.args[2])         # (dw, dv) travelling as a two-field record
    if tang is not None and tang.op == "tuple":
        tang = mk("tuple", *[strip_wrappers(getitem(tang, const(i))) for i in range(len(tang.args))])
    # F: the difference reciprocal(..) - eye that reaches the tangent
    Fs = [x for x in (subterms(tang) if tang is not None else []) if x.op == "binop" and x.args[0] == "-" and recs
          and strip_wrappers(x.args[1]) is recs[0]]
    okF = bool(Fs) and all(m_arrcall(strip_wrappers(x.args[2]), "eye") is not None for x in Fs)
    ctx.ob("GUARD-1", "linalg_utils._eigh_jvp: the diagonal correction is applied after the reciprocal", okF,
           "F = reciprocal(guarded gaps) - eye", fi)
    # primal output and tangent structure: returns (_eigh(primals), (dw, dv))
    ok_p = po is not None and po.op == "call" and (func_name(po) or "").endswith("_eigh")
    if po is not None and not ok_p and po.op == "tuple" and len(po.args) == 2:
        # (w, v) re-packed from one _eigh call
        e0, e1 = strip_wrappers(po.args[0]), strip_wrappers(po.args[1])
        ok_p = e0.op == "getitem" and e1.op == "getitem" and is_const(e0.args[1], 0) and is_const(e1.args[1], 1) and \
            e0.args[0] is e1.args[0] and e0.args[0].op == "call" and (func_name(e0.args[0]) or "").endswith("_eigh")
    ctx.ob("GUARD-1", "linalg_utils._eigh_jvp: primal output is _eigh(primals)", ok_p, "", fi)
    eigh_calls = [x for x in subterms(R) if x.op == "call" and (func_name(x) or "").endswith("._eigh")]
    if tang is None or tang.op != "tuple" or len(tang.args) != 2 or not Fs or not eigh_calls:
        ctx.rep.note("linalg_utils._eigh_jvp: the tangent is not a (dw, dv) pair built from reciprocal(gaps) - eye in a "
                     "form this rule reads; the tangent-formula rule does not apply")
        return
    vterm = getitem(eigh_calls[0], const(1))
    Fterm = Fs[0]

    def dot_parts(t):
        t = strip_wrappers(t)
        a_ = m_arrcall(t, "dot", "matmul") if t.op == "call" else None
        if a_ is not None and len(a_) == 2:
            return strip_wrappers(a_[0]), strip_wrappers(a_[1])
        if t.op == "call" and t.args[0].op == "attr" and t.args[0].args[1] == "dot" and len(call_parts(t)[1]) == 1:
            return strip_wrappers(t.args[0].args[0]), strip_wrappers(call_parts(t)[1][0])
        mm = m_binop(t, "@")
        return (strip_wrappers(mm[0]), strip_wrappers(mm[1])) if mm is not None else None

    ok_t = False
    dw, dv = strip_wrappers(tang.args[0]), strip_wrappers(tang.args[1])
    a = m_arrcall(dw, "diag", "diagonal")
    M = strip_wrappers(a[0]) if a is not None else None
    dd = dot_parts(dv)
    if M is not None and dd is not None:
        mul = m_arrcall(dd[1], "multiply") if dd[1].op == "call" else None
        if mul is None and m_binop(dd[1], "*") is not None:
            mul = list(m_binop(dd[1], "*"))
        ok_t = strip_wrappers(dd[0]) is strip_wrappers(vterm) and mul is not None and \
            {strip_wrappers(mul[0]).uid, strip_wrappers(mul[1]).uid} == {strip_wrappers(Fterm).uid, M.uid}
    ctx.ob("PAIR-4", "linalg_utils._eigh_jvp (tangent): dw = diag(M), dv = v (F * M) with one M = v^H dA v", ok_t,
           "", where_fi)


def call_like_eigh(ev, fi):
    return sym("§")


def whitelist(ctx, s: Sib):
    p = ctx.p
    for cls in ("rhf", "uhf"):
        e = s.E(cls, "optimize")
        out = strip_wrappers(getitem(e.result, const("mo_coeff")))
        comps = list(out.args) if out.op == "list" else [out]
        n_ok = 0
        problems = []
        for ci, c in enumerate(comps):
            # from the output inwards: literal item selections ([-1], the spin index, [1] of the scan result) and one column
            # slice [:, :nelec], in whatever order they are written (the slice may be taken inside the scan body)
            def peel(t_, idxs_, bounds_):
                while True:
                    t_ = strip_wrappers(t_)
                    if t_.op == "getitem" and t_.args[1].op == "const" and type(t_.args[1].args[0]) is int:
                        idxs_.append(t_.args[1].args[0])
                        t_ = t_.args[0]
                    elif t_.op == "getitem" and t_.args[1].op == "tuple" and len(t_.args[1].args) == 2 and \
                            t_.args[1].args[0].op == "slice" and all(is_const(z_, None) for z_ in t_.args[1].args[0].args) and \
                            t_.args[1].args[1].op == "slice" and is_const(t_.args[1].args[1].args[0], None) and \
                            is_const(t_.args[1].args[1].args[2], None):
                        bounds_.append(t_.args[1].args[1].args[1])
                        t_ = t_.args[0]
                    else:
                        return t_
            idxs, bounds = [], []
            inner = peel(c, idxs, bounds)
            scan = inner if inner.op == "call" and match_scan(inner) is not None else None
            if scan is None or idxs[-1:] != [1] or -1 not in idxs:
                problems.append(f"component {ci}: not the last scan output ([{idxs}])")
                continue
            f, init, xs, length = match_scan(scan)
            C, x = sym("§carry"), sym("§x")
            body = s.ev.open_closure(f, [C, x])
            y = strip_wrappers(body.args[1]) if body.op == "tuple" else None
            if y is not None and y.op == "call" and (array_fn(y) or "") in ("stack", "array", "asarray"):
                ps_ = call_parts(y)[1]
                if ps_ and strip_wrappers(ps_[0]).op in ("list", "tuple"):
                    y = strip_wrappers(ps_[0])
            ys = list(y.args) if (y is not None and y.op in ("list", "tuple")) else [y]
            if cls == "uhf" and len(ys) == 2 and ci not in idxs[:-1]:
                problems.append(f"component {ci}: spin index of the stacked eigenvectors is not {ci}")
            yy = peel(ys[ci] if cls == "uhf" and len(ys) == 2 else ys[0], [], bounds)
            want_b = nelec(0) if cls == "rhf" else nelec(ci)
            if len(bounds) != 1:
                problems.append(f"component {ci}: output is not a plain occupied-column slice")
                continue
            if bounds[0] is not want_b:
                problems.append(f"component {ci}: sliced with {show(bounds[0])} instead of {show(want_b)}")
            w = m_where(yy)
            if w is None:
                problems.append(f"component {ci}: eigenvectors are modified by {show(yy, maxdepth=2)[:80]}")
                continue
            cnd, a, b = w
            b = strip_wrappers(b)
            a = strip_wrappers(a)
            neg = a.op == "unop" and a.args[0] == "-" and strip_wrappers(a.args[1]) is b
            src = b.op == "getitem" and is_const(b.args[1], 1) and b.args[0].op == "call" and \
                (func_name(b.args[0]) or "").split(".")[-1] in ("_eigh", "eigh")
            if not (neg and src):
                problems.append(f"component {ci}: not where(cond, -v, v) of _eigh(fock)[1]")
                continue
            # the condition must be per column (indexed [idx, arange]) -- a column sign
            def axis0(t):
                if t.op != "call" or (array_fn(t) or "").split(".")[-1] not in (
                        "argmax", "argmin", "max", "amax", "min", "amin", "take_along_axis", "sum"):
                    return False
                _, ps, kw_ = call_parts(t)
                ax = kw_.get("axis", ps[-1] if len(ps) >= 2 and strip_wrappers(ps[-1]).op == "const" else None)
                return ax is not None and is_const(strip_wrappers(ax), 0)
            # one sign per column: the condition is built from a reduction over the row axis (argmax(..., axis=0), picked
            # up by [idx, arange(n)] or take_along_axis(..., axis=0))
            per_col = any(t.op == "call" and array_fn(t) == "arange" for t in subterms(cnd)) or \
                any(axis0(t) for t in subterms(cnd))
            if not per_col:
                problems.append(f"component {ci}: sign flip is not per column")
                continue
            n_ok += 1
        ctx.ob("PURE-2", f"{cls}.optimize: returned orbitals are eigenvectors, only re-signed per column and sliced",
               n_ok == len(comps) and not problems, "; ".join(problems) or
               f"{len(comps)} component(s): _eigh(fock)[1] -> where(c, -v, v) -> stack -> [-1] -> [:, :nelec]", e.fi)
        # every eigendecomposition differentiated through by the AD samplers is the degeneracy-safe one
        eig = sorted({func_name(t) or "?" for t in subterms(out) if t.op == "call" and
                      (func_name(t) or "").split(".")[-1] in ("eigh", "_eigh", "eig", "eigvalsh", "eigvals")})
        for sc in [t for t in subterms(out) if t.op == "call" and match_scan(t) is not None]:
            bd = s.ev.open_closure(match_scan(sc)[0], [sym("§carry"), sym("§x")])
            eig = sorted(set(eig) | {func_name(t) or "?" for t in subterms(bd) if t.op == "call" and
                                     (func_name(t) or "").split(".")[-1] in ("eigh", "_eigh", "eig", "eigvalsh", "eigvals")})
        ctx.ob("PURE-2", f"{cls}.optimize: every eigendecomposition is linalg_utils._eigh (guarded derivative)",
               bool(eig) and all(n.endswith("linalg_utils._eigh") for n in eig), f"calls: {eig}", e.fi)
        # the scan runs n_opt_iter times from the trial density
        scans = [t for t in subterms(out) if t.op == "call" and match_scan(t) is not None]
        okl = len(scans) == 1 and match_scan(scans[0])[3].op == "attr" and match_scan(scans[0])[3].args[1] == "n_opt_iter"
        ctx.ob("PURE-2", f"{cls}.optimize: fixed number of Roothaan iterations (n_opt_iter)", okl, "", e.fi)
        # aufbau occupation
        f, init, xs, length = match_scan(scans[0])
        body = s.ev.open_closure(f, [sym("§carry"), sym("§x")])
        dm = strip_wrappers(body.args[0])
        occ_val = 2 if cls == "rhf" else 1
        sets = [t for t in subterms(dm) if t.op == "setitem" and t.args[2].op == "const"]
        ok_occ = bool(sets) and all(t.args[2].args[0] == occ_val for t in sets) and all(
            any(u.op == "call" and array_fn(u) == "argsort" for u in subterms(t.args[1])) for t in sets)
        ctx.ob("PURE-2", f"{cls}.optimize: density rebuilt from the lowest orbital energies with occupation {occ_val}",
               ok_occ and len(sets) == (1 if cls == "rhf" else 2),
               f"{len(sets)} occupation assignment(s) via argsort(mo_energy)[:nocc]", e.fi)


def chol_tensors(t):
    """ham_data['chol'].reshape(...) terms inside t (the rank-3 view of the Cholesky vectors, however it is named)"""
    out = []
    for x in subterms(t):
        mm = m_method(x, "reshape") if x.op == "call" else None
        if mm is not None and strip_wrappers(mm[0]) is key(HD, "chol") and x not in out:
            out.append(x)
    return out


def symmetry(ctx, s: Sib):
    """uhf.optimize: one SCF iteration treats the two spins as mirror images."""
    e = s.E("uhf", "optimize")
    out = strip_wrappers(getitem(e.result, const("mo_coeff")))
    scans = [t for t in subterms(out) if t.op == "call" and match_scan(t) is not None]
    if len(scans) != 1:
        raise AnalysisError("uhf.optimize: SCF scan not found")
    Cu, x = sym("§dmu"), sym("§x")
    body = s.ev.open_closure(match_scan(scans[0])[0], [Cu, x])
    if body.op != "tuple":
        raise AnalysisError("uhf.optimize: unmodelled scan body")
    pairs = [(getitem(Cu, const(0)), getitem(Cu, const(1))), (nelec(0), nelec(1)),
             (key(HD, "h1", 0), key(HD, "h1", 1))]
    sw = swap_map(pairs)
    base = {}
    for t_ in chol_tensors(body):
        base[t_] = sym("§L")  # the reshaped Cholesky tensor (its shape arguments are bookkeeping)
    for t_ in subterms(body):
        if t_.op == "call" and array_fn(t_) == "arange" and len(call_parts(t_)[1]) == 1 and any(
                y.op == "attr" and y.args[1] in ("shape", "size") or (y.op == "call" and func_name(y) == "builtins.len")
                for y in subterms(call_parts(t_)[1][0])):
            base[t_] = sym("§columns")      # arange(<number of orbitals>): the column labels, however the count is read off
    sw.update(base)
    for label, val in (("new density", body.args[0]), ("eigenvectors", body.args[1])):
        v = strip_wrappers(val)
        s.cmp("SYM-1", f"uhf.optimize: the down-spin {label} of an iteration mirror the up-spin ones",
              getitem(v, const(0)), getitem(v, const(1)), e.fi, dict(base), hyp_b=sw, frame=e.frame,
              what="component 0 with up <-> dn == component 1")


def fock_sibling(ctx, s: Sib):
    """rhf Fock build == uhf Fock build for dm_up = dm_dn = dm / 2 and h1[0] == h1[1]."""
    r = s.E("rhf", "optimize")
    u = s.E("uhf", "optimize")
    ro = strip_wrappers(getitem(r.result, const("mo_coeff")))
    uo = strip_wrappers(getitem(u.result, const("mo_coeff")))
    rs = [t for t in subterms(ro) if t.op == "call" and match_scan(t) is not None]
    us = [t for t in subterms(uo) if t.op == "call" and match_scan(t) is not None]
    if len(rs) != 1 or len(us) != 1:
        raise AnalysisError("optimize: SCF scan not found")
    Cr, Cu, x = sym("§dm"), sym("§dmu"), sym("§x")
    rb = s.ev.open_closure(match_scan(rs[0])[0], [Cr, x])
    ub = s.ev.open_closure(match_scan(us[0])[0], [Cu, x])

    def eigh_arg(body, which):
        cs = [t for t in subterms(body) if t.op == "call" and (func_name(t) or "").split(".")[-1] in ("_eigh", "eigh")]
        cs = sorted(cs, key=lambda t: t.uid)
        return [call_parts(c)[1][0] for c in cs]

    fr_ = eigh_arg(rb, 0)
    fu_ = eigh_arg(ub, 0)
    if len(fr_) != 1 or len(fu_) != 2:
        raise AnalysisError("optimize: Fock matrices not found")
    # the closed-shell density carried by the rhf scan: the carry itself, or the one array entry of a dict / tuple carry
    dm_r = Cr
    ents = {x for x in subterms(rb) if x.op == "getitem" and x.args[0] is Cr and x.args[1].op == "const"}
    if len(ents) == 1:
        dm_r = next(iter(ents))
    half = mk("binop", "/", dm_r, const(2.0))
    hyp_u = {getitem(Cu, const(0)): half, getitem(Cu, const(1)): half, key(HD, "h1", 1): key(HD, "h1", 0)}
    hyp_r = {key(HD, "h1", 1): key(HD, "h1", 0)}
    # the reshaped Cholesky tensor is the same array in both (shape bookkeeping differs textually)
    cr, cu = chol_tensors(rb), chol_tensors(ub)
    if not cr or not cu:
        raise AnalysisError("optimize: the reshaped Cholesky tensor ham_data['chol'].reshape(...) is not used in the Fock build")
    for t_ in cr:
        hyp_r[t_] = sym("§L")
    for t_ in cu:
        hyp_u[t_] = sym("§L")
    for i, fu in enumerate(fu_):
        s.cmp("SIB-2", f"rhf.optimize / uhf.optimize: Fock matrix #{i} of uhf equals the rhf one for a closed-shell density",
              fr_[0], fu, u.fi, hyp_r, hyp_b=hyp_u, what="dm_up = dm_dn = dm/2, h1[0] == h1[1]")


def fock_symmetric_in_h1(ctx, s: Sib):
    """SYM-1.  The custom derivative rule of linalg_utils._eigh contracts the *raw* tangent of its argument
    (dv ~ F o (v^T dA v)), which is the derivative of the eigen-decomposition only for a symmetric perturbation dA
    (jnp.linalg.eigh itself silently symmetrises its input, so the primal hides an asymmetry).  The one-body matrix
    that carries the coupling into the SCF must therefore be symmetrised before it enters the Fock matrix: the Fock
    matrix is invariant under h1[s] -> h1[s]^T."""
    for cls in ("rhf", "uhf"):
        e = s.E(cls, "optimize")
        out = strip_wrappers(getitem(e.result, const("mo_coeff")))
        scans = [t for t in subterms(out) if t.op == "call" and match_scan(t) is not None]
        if len(scans) != 1:
            ctx.rep.note(f"{cls}.optimize: SCF scan not found; h1-symmetry rule not applicable")
            continue
        C, x = sym("§dm"), sym("§x")
        body = s.ev.open_closure(match_scan(scans[0])[0], [C, x])
        focks = sorted([call_parts(t)[1][0] for t in subterms(body) if t.op == "call" and
                        (func_name(t) or "").split(".")[-1] in ("_eigh", "eigh") and call_parts(t)[1]], key=lambda t: t.uid)
        if not focks:
            ctx.rep.note(f"{cls}.optimize: no eigh of a Fock matrix in the SCF step; h1-symmetry rule not applicable")
            continue
        hyp = {key(HD, "h1", 0): mk("attr", key(HD, "h1", 0), "T"), key(HD, "h1", 1): mk("attr", key(HD, "h1", 1), "T")}
        h1_root = key(HD, "h1")

        def reads_h1_values(t) -> bool:
            """does t depend on the entries of ham_data['h1'] (not merely on its shape)?"""
            seen, stack = set(), [t]
            while stack:
                x = stack.pop()
                if not hasattr(x, "op") or x.uid in seen:
                    continue
                seen.add(x.uid)
                if x.op == "attr" and x.args[1] in ("shape", "size", "ndim", "dtype"):
                    continue
                if x is h1_root:
                    return True
                stack.extend(a for a in x.args if hasattr(a, "op"))
            return False

        for i, f in enumerate(focks):
            parts = [x for _, x in sum_terms(strip_wrappers(f)) if reads_h1_values(x)]
            if not parts:
                ctx.rep.note(f"{cls}.optimize: Fock matrix #{i} has no summand built from h1; h1-symmetry rule not applicable")
                continue
            for x in parts:
                s.cmp("SYM-1", f"{cls}.optimize: Fock matrix #{i} sees h1 only through its symmetric part (h1 + h1^T) / 2",
                      x, x, e.fi, None, hyp_b=hyp, what="invariant under h1[s] -> h1[s]^T")


def init_density_sibling(ctx, s: Sib):
    """SIB-2: the SCF scans start from the trial's own density.  With the hypothesis used for the Fock sibling
    (dm_up = dm_dn = dm / 2) the closed-shell starting density of rhf.optimize is the sum of the two spin blocks
    uhf.optimize starts from when both spin sectors hold the same orbitals -- i.e. it carries the occupation 2."""
    r = s.E("rhf", "optimize")
    u = s.E("uhf", "optimize")
    ro = strip_wrappers(getitem(r.result, const("mo_coeff")))
    uo = strip_wrappers(getitem(u.result, const("mo_coeff")))
    rs = [t for t in subterms(ro) if t.op == "call" and match_scan(t) is not None]
    us = [t for t in subterms(uo) if t.op == "call" and match_scan(t) is not None]
    if len(rs) != 1 or len(us) != 1:
        ctx.rep.note("optimize: SCF scan not found; starting-density sibling not applicable")
        return
    ri, ui = match_scan(rs[0])[1], match_scan(us[0])[1]
    ri0 = strip_wrappers(ri) if ri is not None else None
    if ri0 is not None and ri0.op == "dict" and len(ri0.args) == 2:
        ri = ri0.args[1]                         # a dict carry with one array entry: that entry is the density
    u0, u1 = getitem(strip_wrappers(ui), const(0)), getitem(strip_wrappers(ui), const(1))
    if (u0.op == "getitem" and u0.args[0] is strip_wrappers(ui)) or ri is None:
        ctx.rep.note("uhf.optimize: starting density is not a pair of spin blocks; starting-density sibling not applicable")
        return
    total = mk("binop", "+", u0, u1)
    mo = key(WD, "mo_coeff")
    hyp_u = {key(WD, "mo_coeff", 0): mo, key(WD, "mo_coeff", 1): mo, nelec(1): nelec(0)}
    s.cmp("SIB-2", "rhf.optimize / uhf.optimize: the closed-shell starting density is the sum of the two spin blocks "
          "(occupation 2)", ri, total, r.fi, None, hyp_b=hyp_u, what="mo_coeff[0] == mo_coeff[1] == mo_coeff")


def run(ctx):
    from .c06 import optimize_leaves_propagation_inputs
    optimize_leaves_propagation_inputs(ctx)
    eigh_jvp(ctx)
    s = Sib(ctx)
    whitelist(ctx, s)
    symmetry(ctx, s)
    fock_sibling(ctx, s)
    init_density_sibling(ctx, s)
    fock_symmetric_in_h1(ctx, s)
