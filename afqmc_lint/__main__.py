"""CLI: python -m afqmc_lint Cxx [--tier quick|thorough] [--repo DIR] [--replay FILE]"""

from __future__ import annotations

import argparse
import json
import os
import sys
import traceback

from .model import AnalysisError
from .report import finish
from .runner import PROPS, analyse, selftest


def main(argv=None) -> int:
    ap = argparse.ArgumentParser(prog="check")
    ap.add_argument("prop")
    ap.add_argument("--tier", default=os.environ.get("VERIF_TIER") or "quick",
                    choices=["quick", "thorough"])
    ap.add_argument("--repo", default="/repo")
    ap.add_argument("--replay", default=None)
    ap.add_argument("--no-write", action="store_true")
    ap.add_argument("--jobs", type=int, default=16)
    a = ap.parse_args(argv)
    prop = a.prop.upper()
    if prop not in PROPS:
        print(f"ANALYSIS-ERROR unknown property {prop}")
        return 2
    try:
        rep = analyse(prop, a.repo, None, a.tier)
        if a.replay:
            with open(a.replay) as fh:
                rp = json.load(fh)
            hits = [o for o in rep.obligations
                    if o.rule == rp.get("rule") and o.construct == rp.get("construct")]
            if not hits:
                print(f"replay: obligation {rp.get('rule')} / {rp.get('construct')} no longer exists")
                return 0
            bad = False
            for o in hits:
                print(json.dumps(o.as_dict(), indent=1, default=str))
                bad = bad or not o.ok
            if bad:
                print(f"VIOLATION property={prop} replay={a.replay}")
                return 1
            return 0
        st = None
        if a.tier == "thorough":
            st = selftest(prop, a.repo, rep, a.jobs)
        code = finish(rep, st, write=not a.no_write)
        if st is not None:
            broken = st["missed"] or st["errors"] or not st["pristine_silent"]
            if broken:
                print(f"ANALYSIS-ERROR self-test of {prop} failed: missed={st['missed']} "
                      f"errors={st['errors']} pristine_silent={st['pristine_silent']}")
                return 2 if code == 0 else code
        return code
    except AnalysisError as e:
        print(f"ANALYSIS-ERROR {prop}: {e}")
        return 2
    except Exception:
        print(f"ANALYSIS-ERROR {prop}: checker raised")
        traceback.print_exc()
        return 2


if __name__ == "__main__":
    sys.exit(main())
