"""C01 -- trial overlap (structural clauses)."""

from __future__ import annotations

import ast

from ..model import AnalysisError
from ..rules import batching, bind, keys
from ..rules.trialsib import HD, WD, Sib, key, nelec, restricted_default
from ..rules.siblings import swap_map
from ..symex import const, getitem, show, strip_wrappers, sym

ID = "C01"
EXPLANATION = (
    "BIND-3: for each of the concrete trial classes the MRO-resolved _calc_overlap, "
    "_calc_overlap_restricted, _calc_rdm1 is a real body or the explicit NotImplementedError refusal, and "
    "every call chain from calc_overlap / get_rdm1 binds. SIB-2 (linear value numbering, contradiction "
    "rule): restricted and unrestricted overlaps of rhf and multislater agree when the spin blocks "
    "coincide; the hand-coded and AD flavours of the CI trials (cisd/CISD, ucisd/UCISD) have equal value "
    "numbers; the overlap ratio 1 + o1 + o2 recomputed in the force bias and in the energy of cisd, "
    "cisd_faster, ucisd equals the one of the overlap routine; NOCI's total overlap is one value in its "
    "three copies. SYM-1: uhf, noci and ucisd overlaps and the uhf density matrix are invariant under a "
    "consistent exchange of the spin labels (catches a spin block paired with the other spin's orbitals "
    "or amplitudes). NI-1: batched evaluation splits the walker axis as (n_batch, n_walkers//n_batch), "
    "scans batches, vmaps exactly the per-walker arguments over axis 0 and merges with "
    "reshape(n_walkers) -- per-walker values in walker order. KEYS-3: energy, force bias, density "
    "matrix and optimiser read no trial parameter the overlap does not define. "
    "PAIR-1 (multislater): the reference overlap det(phi_s[occ]) and the Green's function "
    "inv(phi_s[occ]) select the same occupied rows of the same walker block, and block s is selected "
    "with ref_det[s] / nelec[s]. SYM-1 (noci): the down-spin transition density matrix is the mirror "
    "image of the up-spin one. "
    "HOLO-1: every overlap / Green's-function / overlap-ratio routine is holomorphic in the walker (no "
    "conj, real, imag, abs, vdot-first-argument applied to a walker-dependent term). SIB-2 (dependence "
    "form): a class that writes its own restricted entry point depends in it on every wave_data component "
    "its unrestricted entry point depends on (frozen exception: multislater ref_det[1]). SYM-1 "
    "(dependence form): each spin block of noci._calc_rdm1 depends on the determinants of both spin "
    "sectors (pair weights are c_h c_g <h|g> with the full up x down overlap). PAIR-1 on "
    "pyscf_interface.parity: both ends of the counted segment depend on the creation and the destruction "
    "index. "
)
NOT_DECIDED = (
    "that the determinant / Wick / CI expansions are the right formulas (coefficients, signs, parity): "
    "where two independent copies exist their agreement is decided, their common correctness is not."
)
TECHNIQUE = "static analysis: class-table completeness, linear value numbering of sibling implementations, spin-exchange symmetry, batching shape rule"

OVERLAP_METHODS = ["_calc_overlap", "_calc_overlap_restricted"]


def run(ctx):
    p = ctx.p
    table = bind.bind3(ctx, "wavefunctions.wave_function", ["_calc_overlap", "_calc_overlap_restricted",
                                                            "_calc_rdm1", "get_rdm1", "calc_overlap"])
    if len(table) < 10:
        raise AnalysisError(f"only {len(table)} concrete trial classes found")
    # a class must be able to compute at least one overlap flavour
    for q, t in sorted(table.items()):
        if p.subclasses(q, False) and q in ("wavefunctions.wave_function", "wavefunctions.wave_function_cpmc",
                                            "wavefunctions.wave_function_auto"):
            continue
        real = [m for m in OVERLAP_METHODS if t.get(m) == "real"]
        # the restricted default delegates to _calc_overlap: real only if that is real
        ro = p.lookup_method(q, "_calc_overlap_restricted")
        if ro is not None and ro.cls == "wavefunctions.wave_function" and t.get("_calc_overlap") != "real":
            real = [m for m in real if m != "_calc_overlap_restricted"]
        ctx.ob("BIND-3", f"{q}: defines an overlap", bool(real),
               f"real: {real}" if real else "both overlap entry points end in NotImplementedError",
               mod="wavefunctions", line=p.classes[q].lineno)
    bind.bind1(ctx, ["wavefunctions"])
    bind.bind2_decorators(ctx, ["wavefunctions"])
    bind.bind2_transforms(ctx, ["wavefunctions"])
    for fi in p.lookup_dispatch("wavefunctions.wave_function", "calc_overlap"):
        batching.check_batched(ctx, fi, "wavefunctions.wave_function")
    restricted_default(ctx, "overlap")
    from .c11 import parity_rule
    parity_rule(ctx)
    s = Sib(ctx)
    s.holomorphy(("_calc_overlap", "_calc_green", "calc_overlap_ratio", "calc_green", "calc_full_green"))
    s.restricted_consumes_trial_data("overlap")
    s.rhf_restricted_vs_unrestricted("overlap")
    s.multislater_restricted_vs_unrestricted()
    s.multislater_reference_pairing()
    s.noci_trans_rdm1_symmetry()
    s.noci_rdm1_weights()
    s.ci_flavours_overlap()
    s.cisd_overlap_ratio()
    s.ucisd_overlap_ratio()
    s.noci_total_overlap()
    s.uhf_spin_symmetry("_calc_overlap")
    s.noci_spin_symmetry()
    s.ucisd_spin_symmetry("_calc_overlap")
    rdm1(ctx, s)
    params(ctx)


def rdm1(ctx, s: Sib):
    p = ctx.p
    # uhf density matrix: swapping the orbital sets swaps the blocks
    u = s.E("uhf", "_calc_rdm1")
    sw = swap_map([(key(WD, "mo_coeff", 0), key(WD, "mo_coeff", 1))])
    r = strip_wrappers(u.result)
    s.cmp("SYM-1", "uhf._calc_rdm1: block s is built from mo_coeff[s]", getitem(r, const(0)),
          getitem(r, const(1)), u.fi, None, hyp_b=sw, what="dm[0] with 0<->1 == dm[1]")
    # get_rdm1: stored rdm1 wins, else _calc_rdm1
    fi = p.func("wavefunctions.wave_function.get_rdm1")
    from ..symex import Evaluator
    ev = Evaluator(p)
    fr = ev.eval_function(fi)
    rets = [(pa, t, ln) for pa, kind, t, ln in ev.leaves(fr) if kind == "return"]
    ok = len(rets) == 2 and not fr.fell_off_end
    calls = [t for _, t, _ in rets if t.op == "call" and t.args[0].op == "attr"
             and t.args[0].args[1] == "_calc_rdm1"]
    stored = [t for _, t, _ in rets if any(
        x.op == "getitem" and x.args[1].op == "const" and x.args[1].args[0] == "rdm1"
        for x in [strip_wrappers(t)] + list(strip_wrappers(t).args if strip_wrappers(t).op == "call" else []))]
    ctx.ob("PATH-1", "wave_function.get_rdm1: returns the stored rdm1 or _calc_rdm1(wave_data)",
           ok and len(calls) == 1, f"{len(rets)} returns, {len(calls)} via _calc_rdm1", fi)


def params(ctx):
    """KEYS-3: the trial's parameter set is what its overlap reads."""
    p = ctx.p
    ka = keys.key_analysis(p)
    others = ["_calc_force_bias", "_calc_force_bias_restricted", "_calc_energy", "_calc_energy_restricted",
              "_calc_rdm1", "optimize", "_build_measurement_intermediates"]
    n = 0
    for q in p.subclasses("wavefunctions.wave_function"):
        if p.abstract_methods(q) or p.subclasses(q, False) and q in (
                "wavefunctions.wave_function", "wavefunctions.wave_function_auto"):
            continue
        ov = keys.reads_of(ka, q, OVERLAP_METHODS, "wave_data")
        if not ov:
            continue
        rest = keys.reads_of(ka, q, others, "wave_data")
        extra = sorted(k for k in rest if k not in ov and k != "rdm1")
        n += 1
        ctx.ob("KEYS-3", f"{q}: measurements read only the parameters the overlap defines", not extra,
               f"parameters {extra} are read by {[rest[k][0] for k in extra]} but not by the overlap"
               if extra else f"overlap parameters {sorted(ov)}", mod="wavefunctions",
               line=p.classes[q].lineno)
    if n < 8:
        raise AnalysisError("KEYS-3 matched fewer than 8 trial classes")
